// Kani harnesses for crate::bytesearch (child module).  C04-ii / C06: bitmap scan and small sets.
#![allow(dead_code, unused_imports, unused_variables, unused_mut)]
use super::*;

fn naive_find(bytes: &[u8], f: impl Fn(u8) -> bool) -> Option<usize> {
    let mut i = 0;
    while i < bytes.len() {
        if f(bytes[i]) {
            return Some(i);
        }
        i += 1;
    }
    None
}

// The align_to::<u32> scan (prefix / body / suffix) equals the naive first index, at every alignment.
// @verif props=C04,C06,C15 tier=quick timeout=2400 unwind=14 bound="bitmap of up to 3 symbolic bytes; slices of symbolic length <= 9 starting at offsets 0..3 of a 4-aligned buffer" funcs="ByteBitmap::find_in,unsafe_find_in_slice,ByteBitmap::contains,set"
#[kani::proof]
#[kani::unwind(14)]
fn c04_bitmap_find_in() {
    #[repr(align(4))]
    struct Buf([u8; 12]);
    let buf = Buf(kani::any());
    let start: usize = kani::any();
    let len: usize = kani::any();
    kani::assume(start <= 3 && len <= 9);
    let s = &buf.0[start..start + len];
    let members: [u8; 3] = kani::any();
    let bm = ByteBitmap::new(&members);
    let got = bm.find_in(s);
    let want = naive_find(s, |b| b == members[0] || b == members[1] || b == members[2]);
    assert!(got == want);
    kani::cover!(got.is_some() && got.unwrap() >= 5, "hit in the aligned body or suffix");
    kani::cover!(got.is_none() && len == 9, "full scan without a hit");
}

// @verif props=C04,C06,C15 tier=quick timeout=900 unwind=4 bound="all 256 bytes, any 16-byte bitmap" funcs="AsciiBitmap::contains,AsciiBitmap::set"
#[kani::proof]
#[kani::unwind(4)]
fn c04_ascii_bitmap() {
    let mut bm = AsciiBitmap::default();
    let a: u8 = kani::any();
    let b: u8 = kani::any();
    kani::assume(a < 128 && b < 128);
    bm.set(a);
    bm.set(b);
    let x: u8 = kani::any();
    assert!(ByteSet::contains(&bm, x) == (x == a || x == b));
    kani::cover!(x >= 128, "non-ASCII probe");
}

// @verif props=C04,C15 tier=quick timeout=1200 unwind=12 bound="4 symbolic members, slice of symbolic length <= 8" funcs="<[u8;4] as SmallArraySet>::find_in,contains,charset_contains"
#[kani::proof]
#[kani::unwind(12)]
fn c04_small_array_set4() {
    let set: [u8; 4] = kani::any();
    let data: [u8; 8] = kani::any();
    let len: usize = kani::any();
    kani::assume(len <= 8);
    let s = &data[..len];
    let got = SmallArraySet::find_in(set, s);
    let want = naive_find(s, |b| b == set[0] || b == set[1] || b == set[2] || b == set[3]);
    assert!(got == want);
    let cs: [u32; 4] = kani::any();
    let c: u32 = kani::any();
    assert!(charset_contains(&cs, c) == (c == cs[0] || c == cs[1] || c == cs[2] || c == cs[3]));
    kani::cover!(got.is_some(), "hit");
}
