// Kani harnesses for crate::matchers (child module).  C10-H2 / C06 / C15: case-insensitive backreference
// and the match-time fold relation.
#![allow(dead_code, unused_imports, unused_variables, unused_mut, static_mut_refs)]
use super::*;
use crate::cursor::{Backward, Forward};
use crate::indexing::{InputIndexer, Utf8Input};

#[path = "/verif/oracle/fold_oracle.rs"]
mod fo;

fn lookup(tab: &[(u32, u32)], c: u32) -> u32 {
    let mut lo = 0usize;
    let mut hi = tab.len();
    while lo < hi {
        let mid = lo + (hi - lo) / 2;
        let k = tab[mid].0;
        if k == c {
            return tab[mid].1;
        } else if k < c {
            lo = mid + 1;
        } else {
            hi = mid;
        }
    }
    c
}

fn enc(c: u32, buf: &mut [u8], at: usize) -> usize {
    if c < 0x80 {
        buf[at] = c as u8;
        1
    } else if c < 0x800 {
        buf[at] = 0xC0 | (c >> 6) as u8;
        buf[at + 1] = 0x80 | (c & 0x3F) as u8;
        2
    } else if c < 0x10000 {
        buf[at] = 0xE0 | (c >> 12) as u8;
        buf[at + 1] = 0x80 | ((c >> 6) & 0x3F) as u8;
        buf[at + 2] = 0x80 | (c & 0x3F) as u8;
        3
    } else {
        buf[at] = 0xF0 | (c >> 18) as u8;
        buf[at + 1] = 0x80 | ((c >> 12) & 0x3F) as u8;
        buf[at + 2] = 0x80 | ((c >> 6) & 0x3F) as u8;
        buf[at + 3] = 0x80 | (c & 0x3F) as u8;
        4
    }
}

// ---- fold_code_point as an ARBITRARY deterministic function (compositional: the table lemmas
// c10_fold_lemma_* / c10_legacy_upper_* tie the real fold_code_point to the oracle for every code point; here the
// users of the relation are checked for EVERY possible fold function, which keeps the table searches out of
// the solver instance - with the real tables the harness ran out of memory at 20 GB) ----
// (one array with a unique initial content: see the note on aliasing statics in lib/mirror.py)
static mut VERIF_FOLD_TAB: [(u32, u32); 3] = [(0xFFFF_FF01, 0xFFFF_FF11), (0xFFFF_FF02, 0xFFFF_FF12), (0xFFFF_FF03, 0xFFFF_FF13)];
static mut VERIF_FOLD_BAD: [u32; 2] = [0xFFFF_FF21, 0xFFFF_FF22];

pub fn stub_fold_code_point(c: u32, _unicode: bool) -> u32 {
    unsafe {
        let mut i = 0;
        while i < 3 {
            if VERIF_FOLD_TAB[i].0 == c {
                return VERIF_FOLD_TAB[i].1;
            }
            i += 1;
        }
        VERIF_FOLD_BAD[0] = 1; // a character that is not part of the haystack was folded
    }
    c
}

fn fold_model(c: u32) -> u32 {
    // UTF8CharProperties::fold: char::from_u32(fold_code_point(c)).unwrap_or(c)
    let v = stub_fold_code_point(c, true);
    if v <= 0x10FFFF && !(v >= 0xD800 && v <= 0xDFFF) {
        v
    } else {
        c
    }
}

fn any_scalar() -> u32 {
    let c: u32 = kani::any();
    kani::assume(c <= 0x10FFFF && !(c >= 0xD800 && c <= 0xDFFF));
    c
}

/// haystack = [pad] [captured char c1] [candidate char c2]; the captured group is the middle char, so it does
/// NOT start at offset 0; the backreference is tried at the position after it (forward) or the candidate is
/// placed before it (backward).
fn backref_icase_body(unicode: bool, fwd: bool) {
    let pad = any_scalar();
    let c1 = any_scalar();
    let c2 = any_scalar();
    let (v0, v1, v2): (u32, u32, u32) = (kani::any(), kani::any(), kani::any());
    // a function: equal arguments have equal values
    kani::assume(pad != c1 || v0 == v1);
    kani::assume(pad != c2 || v0 == v2);
    kani::assume(c1 != c2 || v1 == v2);
    unsafe {
        VERIF_FOLD_TAB = [(pad, v0), (c1, v1), (c2, v2)];
        VERIF_FOLD_BAD = [0, 0];
    }
    let mut buf = [0u8; 12];
    let mut off = [0usize; 4];
    let order = if fwd { [pad, c1, c2] } else { [c2, c1, pad] };
    let mut at = 0;
    let mut i = 0;
    while i < 3 {
        at += enc(order[i], &mut buf, at);
        off[i + 1] = at;
        i += 1;
    }
    let text: &str = unsafe { core::str::from_utf8_unchecked(&buf[..at]) };
    let input = Utf8Input::new(text, unicode);
    let le = input.left_end();
    let p = |o: usize| input.try_move_right(le, o).unwrap();
    let range = p(off[1])..p(off[2]); // the captured char c1
    let mut pos = if fwd { p(off[2]) } else { p(off[1]) };
    let r = if fwd {
        backref_icase(&input, Forward::new(), range, &mut pos)
    } else {
        backref_icase(&input, Backward::new(), range, &mut pos)
    };
    let want = c1 == c2 || fold_model(c1) == fold_model(c2);
    assert!(r == want, "a case-insensitive backreference matches exactly when both characters have the same canonical form");
    assert!(unsafe { VERIF_FOLD_BAD[0] } == 0, "only characters of the haystack are folded");
    if r {
        assert!(input.pos_to_offset(pos) == if fwd { off[3] } else { off[0] });
    }
    kani::cover!(r && c1 != c2, "a case pair matched");
    kani::cover!(!r, "a mismatch");
    kani::cover!(r && c1 < 0x80 && c2 >= 0x80, "an ASCII character matched a non-ASCII one");
}

// @verif props=C10,C15,C06 tier=quick qprops=C10,C15 timeout=1800 mem=12 unwind=6 c15=index,safe,index_safe c15q=all bound="haystack = padding, captured character, candidate: 3 symbolic scalars; fold = arbitrary function; forward" funcs="matchers::backref_icase,Utf8Input::subinput,InputIndexer::fold_equals,UTF8CharProperties::fold,next_right" stubs="unicode::fold_code_point -> arbitrary deterministic function on the haystack's characters (tied to the oracle tables by c10_fold_lemma_*/c10_legacy_upper_*)"
#[kani::proof]
#[kani::unwind(6)]
#[kani::stub(crate::unicode::fold_code_point, stub_fold_code_point)]
fn c10_backref_icase_fwd() {
    backref_icase_body(kani::any(), true);
}

// @verif props=C10,C15,C06 tier=thorough qprops=C10,C15 timeout=1800 mem=12 unwind=6 c15=index,safe,index_safe bound="haystack = candidate, captured character, padding: 3 symbolic scalars; fold = arbitrary function; backward (lookbehind)" funcs="matchers::backref_icase,Utf8Input::subinput,InputIndexer::fold_equals,UTF8CharProperties::fold,next_left" stubs="unicode::fold_code_point -> arbitrary deterministic function on the haystack's characters (tied to the oracle tables by c10_fold_lemma_*/c10_legacy_upper_*)"
#[kani::proof]
#[kani::unwind(6)]
#[kani::stub(crate::unicode::fold_code_point, stub_fold_code_point)]
fn c10_backref_icase_bwd() {
    backref_icase_body(kani::any(), false);
}
