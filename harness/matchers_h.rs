// Kani harnesses for crate::matchers (child module).  C10-H2 / C06 / C15: case-insensitive backreference
// and the match-time fold relation.
#![allow(dead_code, unused_imports, unused_variables, unused_mut)]
use super::*;
use crate::cursor::{Backward, Forward};
use crate::indexing::{InputIndexer, Utf8Input};

#[path = "/verif/oracle/fold_oracle.rs"]
mod fo;

fn lookup(tab: &[(u32, u32)], c: u32) -> u32 {
    let mut lo = 0usize;
    let mut hi = tab.len();
    while lo < hi {
        let mid = lo + (hi - lo) / 2;
        let k = tab[mid].0;
        if k == c {
            return tab[mid].1;
        } else if k < c {
            lo = mid + 1;
        } else {
            hi = mid;
        }
    }
    c
}

fn enc(c: u32, buf: &mut [u8], at: usize) -> usize {
    if c < 0x80 {
        buf[at] = c as u8;
        1
    } else if c < 0x800 {
        buf[at] = 0xC0 | (c >> 6) as u8;
        buf[at + 1] = 0x80 | (c & 0x3F) as u8;
        2
    } else if c < 0x10000 {
        buf[at] = 0xE0 | (c >> 12) as u8;
        buf[at + 1] = 0x80 | ((c >> 6) & 0x3F) as u8;
        buf[at + 2] = 0x80 | (c & 0x3F) as u8;
        3
    } else {
        buf[at] = 0xF0 | (c >> 18) as u8;
        buf[at + 1] = 0x80 | ((c >> 12) & 0x3F) as u8;
        buf[at + 2] = 0x80 | ((c >> 6) & 0x3F) as u8;
        buf[at + 3] = 0x80 | (c & 0x3F) as u8;
        4
    }
}

/// haystack = [pad] [captured char c1] [candidate char c2]; the captured group is the middle char, so
/// it does NOT start at offset 0; the backreference is tried at the position after it (forward) or the
/// candidate is placed before it (backward).
fn backref_icase_body(unicode: bool, fwd: bool) {
    let pad: u32 = kani::any();
    let c1: u32 = kani::any();
    let c2: u32 = kani::any();
    for c in [pad, c1, c2] {
        kani::assume(c <= 0x10FFFF && !(c >= 0xD800 && c <= 0xDFFF));
    }
    let mut buf = [0u8; 12];
    let mut off = [0usize; 4];
    let order = if fwd { [pad, c1, c2] } else { [c2, c1, pad] };
    let mut at = 0;
    let mut i = 0;
    while i < 3 {
        at += enc(order[i], &mut buf, at);
        off[i + 1] = at;
        i += 1;
    }
    let text: &str = unsafe { core::str::from_utf8_unchecked(&buf[..at]) };
    let input = Utf8Input::new(text, unicode);
    let le = input.left_end();
    let p = |o: usize| input.try_move_right(le, o).unwrap();
    let range = p(off[1])..p(off[2]); // the captured char c1
    let mut pos = if fwd { p(off[2]) } else { p(off[1]) };
    let r = if fwd {
        backref_icase(&input, Forward::new(), range, &mut pos)
    } else {
        backref_icase(&input, Backward::new(), range, &mut pos)
    };
    let tab: &[(u32, u32)] = if unicode { &fo::FOLD_REP } else { &fo::UPPER_CANON };
    let mut want = c1 == c2 || lookup(tab, c1) == lookup(tab, c2);
    if verif_cfg::KF_C10_LEGACY_MULTI_UPPER && !unicode {
        // known finding C10-legacy-multi-upper: excluded here (see unicode_h.rs)
        let mut lo = 0usize;
        let mut hi = fo::MULTI_UPPER.len();
        let mut excl = false;
        while lo < hi {
            let mid = lo + (hi - lo) / 2;
            let k = fo::MULTI_UPPER[mid].0;
            if k == c1 || k == c2 {
                excl = true;
            }
            if k < c1 {
                lo = mid + 1;
            } else {
                hi = mid;
            }
        }
        kani::assume(!excl);
    }
    assert!(r == want, "case-insensitive backreference must follow the canonical-equivalence relation");
    if r {
        assert!(input.pos_to_offset(pos) == if fwd { off[3] } else { off[0] });
    }
    kani::cover!(r && c1 != c2, "a case pair matched");
    kani::cover!(!r, "a mismatch");
}

// @verif props=C10,C15,C06 tier=quick timeout=2400 unwind=14 c15=index,safe,index_safe c15q=all bound="captured text = 1 symbolic scalar not at offset 0, candidate = 1 symbolic scalar; u/v folding; forward" funcs="matchers::backref_icase,Utf8Input::subinput,fold_equals,UTF8CharProperties::fold,unicode::fold"
#[kani::proof]
#[kani::unwind(14)]
fn c10_backref_icase_unicode_fwd() {
    backref_icase_body(true, true);
}

// @verif props=C10,C15,C06 tier=quick timeout=2400 unwind=14 c15=index,safe,index_safe c15q=all bound="captured text = 1 symbolic scalar, candidate before it; u/v folding; backward (lookbehind)" funcs="matchers::backref_icase,Utf8Input::subinput,fold_equals"
#[kani::proof]
#[kani::unwind(14)]
fn c10_backref_icase_unicode_bwd() {
    backref_icase_body(true, false);
}
