// Kani harnesses for crate::util (child module).  C04-ii / C06: UTF-8 lead-byte kernels.
#![allow(dead_code, unused_imports, unused_variables, unused_mut)]
use super::*;

fn lead_byte(cp: u32) -> u8 {
    // independent of util.rs: via the standard encoder where possible
    if let Some(c) = char::from_u32(cp) {
        let mut b = [0u8; 4];
        c.encode_utf8(&mut b);
        b[0]
    } else {
        // surrogates: generalized UTF-8 (3-byte form)
        0xE0 | (cp >> 12) as u8
    }
}

// @verif props=C04,C06,C15 tier=quick timeout=900 unwind=6 bound="all code points 0..=0x10FFFF (surrogates included)" funcs="util::utf8_first_byte"
#[kani::proof]
#[kani::unwind(6)]
fn c04_utf8_first_byte() {
    let cp: u32 = kani::any();
    kani::assume(cp <= 0x10FFFF);
    assert!(utf8_first_byte(cp) == lead_byte(cp));
    kani::cover!(cp >= 0x10000, "four byte");
    kani::cover!(cp >= 0xD800 && cp <= 0xDFFF, "surrogate");
}

// Every code point of the interval has its lead byte in the bitmap, and nothing else is set.
fn first_bytes_body(lo: u32, hi: u32) {
    let a: u32 = kani::any();
    let b: u32 = kani::any();
    kani::assume(lo <= a && a <= b && b <= hi);
    let mut bm = ByteBitmap::default();
    add_utf8_first_bytes_to_bitmap(Interval { first: a, last: b }, &mut bm);
    let cp: u32 = kani::any();
    kani::assume(a <= cp && cp <= b);
    assert!(bm.contains(utf8_first_byte(cp)), "lead byte of a member is admitted");
    // exactness (the prefilter may not admit continuation bytes: it would land inside a sequence)
    let x: u8 = kani::any();
    if bm.contains(x) {
        assert!(x < 0x80 || x >= 0xC0, "no continuation byte is admitted");
        assert!(x >= utf8_first_byte(a) && x <= utf8_first_byte(b));
    }
    kani::cover!(a < b, "a proper interval");
}

// @verif props=C04,C15 tier=thorough timeout=2400 unwind=260 bound="any interval [a,b] in 0..=0x10FFFF, any member cp, any byte" funcs="util::add_utf8_first_bytes_to_bitmap,ByteBitmap::set,ByteBitmap::contains"
#[kani::proof]
#[kani::unwind(260)]
fn c04_first_bytes_bitmap() {
    first_bytes_body(0, 0x10FFFF);
}

// @verif props=C04,C15 tier=quick timeout=1200 unwind=34 bound="any interval [a,b] in 0x80..=0x10FFFF (2-, 3- and 4-byte encodings and every mix of them), any member cp, any byte" funcs="util::add_utf8_first_bytes_to_bitmap,ByteBitmap::set,ByteBitmap::contains"
#[kani::proof]
#[kani::unwind(34)]
fn c04_first_bytes_bitmap_nonascii() {
    first_bytes_body(0x80, 0x10FFFF);
}

// @verif props=C04,C15 tier=quick timeout=1200 unwind=131 bound="any interval [a,b] in 0..=0x7FF (ASCII, 2-byte and the mix), any member cp, any byte" funcs="util::add_utf8_first_bytes_to_bitmap,ByteBitmap::set,ByteBitmap::contains"
#[kani::proof]
#[kani::unwind(131)]
fn c04_first_bytes_bitmap_low() {
    first_bytes_body(0, 0x7FF);
}

// Decoding kernels: utf8_wN invert the standard encoder.
// @verif props=C06,C15 tier=quick timeout=900 unwind=6 bound="all scalar values" funcs="util::utf8_w2,utf8_w3,utf8_w4,is_utf8_continuation"
#[kani::proof]
#[kani::unwind(6)]
fn c06_utf8_wn_roundtrip() {
    let c: char = kani::any();
    let mut b = [0u8; 4];
    let n = c.encode_utf8(&mut b).len();
    let got = match n {
        1 => b[0] as u32,
        2 => utf8_w2(b[0], b[1]),
        3 => utf8_w3(b[0], b[1], b[2]),
        _ => utf8_w4(b[0], b[1], b[2], b[3]),
    };
    assert!(got == c as u32);
    assert!(!is_utf8_continuation(b[0]));
    kani::cover!(n == 4, "four byte");
    kani::cover!(n == 2, "two byte");
}
