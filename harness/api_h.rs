// Kani harnesses for crate::api (child module: sees private items).
// C16: Match accessors; C17: expand_replacement; C18: escape.
#![allow(dead_code, unused_imports)]
use super::*;

// ---------------------------------------------------------------------------
// helpers
// ---------------------------------------------------------------------------

/// A capture value: None or a sub-range of a (conceptual) 8-byte haystack.
fn any_cap() -> Option<Range> {
    if kani::any() {
        let s: usize = kani::any();
        let e: usize = kani::any();
        kani::assume(s <= e && e <= 8);
        Some(s..e)
    } else {
        None
    }
}

const NAMES: [&str; 3] = ["", "a", "b"];

fn name_of(sel: u8) -> &'static str {
    match sel {
        0 => "",
        1 => "a",
        _ => "b",
    }
}

/// Build a Match with exactly N capture slots. `named` selects whether the regex had any named
/// group (group_names has N entries) or none (group_names empty) - the two shapes emit produces.
fn build_match<const N: usize>(caps: &[Option<Range>; N], sels: &[u8; N], named: bool) -> Match {
    let mut captures = Vec::with_capacity(N);
    let mut names: Vec<Box<str>> = Vec::with_capacity(N);
    let mut i = 0;
    while i < N {
        captures.push(caps[i].clone());
        if named {
            names.push(name_of(sels[i]).into());
        }
        i += 1;
    }
    let s: usize = kani::any();
    let e: usize = kani::any();
    kani::assume(s <= e && e <= 8);
    Match {
        range: s..e,
        captures,
        group_names: names.into_boxed_slice(),
    }
}

/// Specification of the named accessors, written against the property text:
/// value reported for name `sel` (1 = "a", 2 = "b"): the holder that participated, if any.
/// Returns (name_present, value).
fn spec_named<const N: usize>(
    caps: &[Option<Range>; N],
    sels: &[u8; N],
    named: bool,
    sel: u8,
) -> (bool, Option<Range>) {
    let mut present = false;
    let mut val: Option<Range> = None;
    if named {
        let mut i = 0;
        while i < N {
            if sels[i] == sel {
                present = true;
                if val.is_none() && caps[i].is_some() {
                    val = caps[i].clone();
                }
            }
            i += 1;
        }
    }
    (present, val)
}

fn c16_body<const N: usize>(sels: [u8; N], named: bool) {
    let caps: [Option<Range>; N] = core::array::from_fn(|_| any_cap());
    // Invariant from the grammar: groups sharing a name sit in different alternatives (and
    // captures inside a loop body are reset per iteration), so at most one holder of a name
    // participates in any match.
    let mut i = 0;
    while i < N {
        let mut j = i + 1;
        while j < N {
            if named && sels[i] != 0 && sels[i] == sels[j] {
                kani::assume(!(caps[i].is_some() && caps[j].is_some()));
            }
            j += 1;
        }
        i += 1;
    }
    let m = build_match::<N>(&caps, &sels, named);

    // group(): 0 is the whole match, 1..=N the slots, beyond that None.
    assert!(m.group(0) == Some(m.range.clone()));
    assert!(m.range() == m.range.clone());
    assert!(m.start() == m.range.start && m.end() == m.range.end);
    let mut i = 0;
    while i < N {
        assert!(m.group(i + 1) == caps[i]);
        i += 1;
    }
    let beyond: usize = kani::any();
    kani::assume(beyond > N);
    assert!(m.group(beyond).is_none());

    // groups(): exactly N+1 items equal to group(i), with exact size hints, fused.
    let mut it = m.groups();
    let mut k = 0;
    while k <= N {
        assert!(it.size_hint() == (N + 1 - k, Some(N + 1 - k)));
        let item = it.next();
        assert!(item.is_some());
        assert!(item.unwrap() == m.group(k));
        k += 1;
    }
    assert!(it.size_hint() == (0, Some(0)));
    assert!(it.next().is_none());
    assert!(it.next().is_none());

    // named_groups(): each distinct non-empty name once, in first-occurrence order, with the
    // value of the participating holder.
    let mut ng = m.named_groups();
    let mut seen_a = false;
    let mut seen_b = false;
    let mut i = 0;
    while i < N {
        if named && sels[i] != 0 {
            let first = if sels[i] == 1 { !seen_a } else { !seen_b };
            if first {
                if sels[i] == 1 {
                    seen_a = true
                } else {
                    seen_b = true
                }
                let item = ng.next();
                assert!(item.is_some());
                let (nm, val) = item.unwrap();
                assert!(nm.len() == 1 && nm.as_bytes()[0] == name_of(sels[i]).as_bytes()[0]);
                let (_, want) = spec_named::<N>(&caps, &sels, named, sels[i]);
                assert!(val == want);
            }
        }
        i += 1;
    }
    assert!(ng.next().is_none());
    assert!(ng.next().is_none());

    // named_group(name) agrees with named_groups() / the participating holder.
    let (_pa, va) = spec_named::<N>(&caps, &sels, named, 1);
    let (_pb, vb) = spec_named::<N>(&caps, &sels, named, 2);
    assert!(m.named_group("a") == va);
    assert!(m.named_group("b") == vb);
    assert!(m.named_group("").is_none());
    assert!(m.named_group("c").is_none());
    assert!(m.named_group("ab").is_none());
    core::mem::forget(m);
}

/// The names side (which comes from the pattern) is enumerated concretely: every assignment of
/// {unnamed, "a", "b"} to N groups (config codes lo..hi in base 3), plus the "no names table"
/// shape.  The captures side (which comes from the haystack) is symbolic.
fn c16_name_configs<const N: usize>(lo: usize, hi: usize) {
    if lo == 0 {
        c16_body::<N>([0; N], false);
    }
    let mut code = lo;
    while code < hi {
        let mut sels = [0u8; N];
        let mut c = code;
        let mut i = 0;
        while i < N {
            sels[i] = (c % 3) as u8;
            c /= 3;
            i += 1;
        }
        c16_body::<N>(sels, true);
        code += 1;
    }
    kani::cover!(true, "end of harness reached");
}

// @verif props=C16 tier=quick timeout=300 bound="0 groups; match range symbolic in 0..=8"
// @verif funcs="Match::group,Match::groups,Groups::next,Groups::size_hint,Match::named_group,Match::named_groups,NamedGroups::next"
#[kani::proof]
#[kani::unwind(12)]
fn c16_accessors_n0() {
    c16_name_configs::<0>(0, 1);
}

// @verif props=C16 tier=quick timeout=600 bound="1 group, name in {unnamed,a,b}; capture None or any s<=e<=8"
// @verif funcs="Match::group,Match::groups,Groups::next,Groups::size_hint,Match::named_group,Match::named_groups,NamedGroups::next"
#[kani::proof]
#[kani::unwind(12)]
fn c16_accessors_n1() {
    c16_name_configs::<1>(0, 3);
}

// @verif props=C16 tier=quick timeout=900 bound="2 groups, all 9 name assignments over {unnamed,a,b} incl. duplicates; captures symbolic"
// @verif funcs="Match::group,Match::groups,Groups::next,Groups::size_hint,Match::named_group,Match::named_groups,NamedGroups::next"
// @verif assumes="at most one holder of a shared name participates (grammar: duplicates only in different alternatives)"
#[kani::proof]
#[kani::unwind(12)]
fn c16_accessors_n2() {
    c16_name_configs::<2>(0, 9);
}

// Three groups sharing one name (the third participating) and the other duplicate shapes of N=3.
fn c16_body_codes<const N: usize>(codes: &[usize]) {
    let mut k = 0;
    while k < codes.len() {
        let mut sels = [0u8; N];
        let mut c = codes[k];
        let mut i = 0;
        while i < N {
            sels[i] = (c % 3) as u8;
            c /= 3;
            i += 1;
        }
        c16_body::<N>(sels, true);
        k += 1;
    }
    kani::cover!(true, "end of harness reached");
}

// @verif props=C16 tier=quick timeout=1800 bound="3 groups with name assignments (a,a,a), (b,b,b), (a,-,a), (a,b,a): duplicates incl. three holders of one name; captures symbolic"
// @verif funcs="Match::group,Match::groups,Match::named_group,Match::named_groups,NamedGroups::next"
#[kani::proof]
#[kani::unwind(12)]
fn c16_accessors_n3_dups() {
    c16_body_codes::<3>(&[13, 26, 10, 16]);
}

// @verif props=C16 tier=thorough timeout=2400 bound="3 groups, name assignments 0..9 of 27; captures symbolic"
// @verif funcs="Match::group,Match::groups,Groups::next,Groups::size_hint,Match::named_group,Match::named_groups,NamedGroups::next"
#[kani::proof]
#[kani::unwind(12)]
fn c16_accessors_n3_a() {
    c16_name_configs::<3>(0, 9);
}

// @verif props=C16 tier=thorough timeout=2400 bound="3 groups, name assignments 9..18 of 27; captures symbolic"
// @verif funcs="Match::group,Match::groups,Groups::next,Groups::size_hint,Match::named_group,Match::named_groups,NamedGroups::next"
#[kani::proof]
#[kani::unwind(12)]
fn c16_accessors_n3_b() {
    c16_name_configs::<3>(9, 18);
}

// @verif props=C16 tier=thorough timeout=2400 bound="3 groups, name assignments 18..27 of 27; captures symbolic"
// @verif funcs="Match::group,Match::groups,Groups::next,Groups::size_hint,Match::named_group,Match::named_groups,NamedGroups::next"
#[kani::proof]
#[kani::unwind(12)]
fn c16_accessors_n3_c() {
    c16_name_configs::<3>(18, 27);
}

// ===========================================================================================
// C18-H1: escape(s) = s with a backslash before exactly the 14 syntax characters
// ===========================================================================================

fn is_syntax(c: u32) -> bool {
    matches!(
        c,
        0x5C | 0x5E | 0x24 | 0x2E | 0x7C | 0x3F | 0x2A | 0x2B | 0x28 | 0x29 | 0x5B | 0x5D | 0x7B | 0x7D
    )
}

fn enc(c: u32, buf: &mut [u8], at: usize) -> usize {
    if c < 0x80 {
        buf[at] = c as u8;
        1
    } else if c < 0x800 {
        buf[at] = 0xC0 | (c >> 6) as u8;
        buf[at + 1] = 0x80 | (c & 0x3F) as u8;
        2
    } else if c < 0x10000 {
        buf[at] = 0xE0 | (c >> 12) as u8;
        buf[at + 1] = 0x80 | ((c >> 6) & 0x3F) as u8;
        buf[at + 2] = 0x80 | (c & 0x3F) as u8;
        3
    } else {
        buf[at] = 0xF0 | (c >> 18) as u8;
        buf[at + 1] = 0x80 | ((c >> 12) & 0x3F) as u8;
        buf[at + 2] = 0x80 | ((c >> 6) & 0x3F) as u8;
        buf[at + 3] = 0x80 | (c & 0x3F) as u8;
        4
    }
}

/// Models of `String::with_capacity`, `String::push` and `String::push_str` used as Kani stubs.
/// std's own versions make the buffer capacity a symbolic value as soon as one `push` sits under a
/// symbolic branch; every later growth then allocates a symbolic number of bytes and the SAT back end runs
/// out of memory (measured: 21 GB and 400 s for escape() of ONE two-byte character, in a crate that
/// contains nothing else).  The models keep the capacity concrete: a fixed 32-byte buffer that is never
/// re-allocated, with an ASSERTION (not an assumption) that it is never exceeded, and the same bytes
/// appended.  Capacity is not observable through the API under test; std is trusted, the repository's
/// functions are the code under test.
pub const VERIF_STRING_CAP: usize = 32;

pub fn stub_string_with_capacity(_n: usize) -> String {
    String::from_utf8(Vec::with_capacity(VERIF_STRING_CAP)).unwrap()
}

#[inline(never)]
fn verif_append(s: &mut String, b: u8) {
    let v = unsafe { s.as_mut_vec() };
    let len = v.len();
    assert!(len < v.capacity(), "verification model: fixed String capacity exceeded");
    unsafe {
        v.as_mut_ptr().add(len).write(b);
        v.set_len(len + 1);
    }
}

pub fn stub_string_new() -> String {
    String::from_utf8(Vec::with_capacity(VERIF_STRING_CAP)).unwrap()
}

pub fn stub_string_push_str(s: &mut String, t: &str) {
    let tb = t.as_bytes();
    let mut i = 0;
    while i < tb.len() {
        verif_append(s, tb[i]);
        i += 1;
    }
}

pub fn stub_string_push(s: &mut String, c: char) {
    let mut b = [0u8; 4];
    let n = enc(c as u32, &mut b, 0);
    verif_append(s, b[0]);
    if n >= 2 {
        verif_append(s, b[1]);
    }
    if n >= 3 {
        verif_append(s, b[2]);
    }
    if n >= 4 {
        verif_append(s, b[3]);
    }
}

/// escape() on a string of N arbitrary scalar values.
fn c18_body<const N: usize>() {
    let mut inb = [0u8; 12];
    let mut want = [0u8; 16];
    let mut il = 0usize;
    let mut wl = 0usize;
    let mut i = 0;
    let mut nsyntax = 0usize;
    let mut nmulti = 0usize;
    while i < N {
        let c: u32 = kani::any();
        kani::assume(c <= 0x10FFFF && !(c >= 0xD800 && c <= 0xDFFF));
        il += enc(c, &mut inb, il);
        if is_syntax(c) {
            want[wl] = 0x5C;
            wl += 1;
            nsyntax += 1;
        }
        if c >= 0x80 {
            nmulti += 1;
        }
        wl += enc(c, &mut want, wl);
        i += 1;
    }
    let s: &str = unsafe { core::str::from_utf8_unchecked(&inb[..il]) };
    let out = escape(s);
    let ob = out.as_bytes();
    assert!(ob.len() == wl, "escape(s) has the wrong length");
    // unrolled by hand: the unwind bound then only has to cover the loop of escape() itself
    macro_rules! same_at {
        ($($k:expr),*) => {$(
            if $k < wl {
                assert!(ob[$k] == want[$k], "escape(s) differs from s with a backslash before each syntax character");
            }
        )*};
    }
    same_at!(0, 1, 2, 3, 4, 5, 6, 7, 8, 9, 10, 11, 12, 13, 14);
    kani::cover!(nsyntax == 0, "nothing to escape");
    kani::cover!(nsyntax == N, "every character is a syntax character");
    kani::cover!(if N >= 2 { nsyntax >= 1 && nmulti >= 1 } else { nmulti == 1 }, "multi-byte characters (next to a syntax character when N >= 2)");
    core::mem::forget(out);
}

// @verif props=C18 tier=quick timeout=1200 mem=10 unwind=3 bound="s = 1 arbitrary scalar value (all of Unicode, every UTF-8 width)" funcs="api::escape" stubs="String::with_capacity -> fixed 32-byte buffer; String::push -> same UTF-8 bytes appended without re-allocation (capacity overflow asserted)"
#[kani::proof]
#[kani::unwind(3)]
#[kani::stub(std::string::String::push, stub_string_push)]
#[kani::stub(std::string::String::with_capacity, stub_string_with_capacity)]
fn c18_escape_1() {
    c18_body::<1>();
}

// @verif props=C18 tier=quick timeout=1800 mem=12 unwind=4 bound="s = 2 arbitrary scalar values" funcs="api::escape" stubs="String::with_capacity -> fixed 32-byte buffer; String::push -> same UTF-8 bytes appended without re-allocation (capacity overflow asserted)"
#[kani::proof]
#[kani::unwind(4)]
#[kani::stub(std::string::String::push, stub_string_push)]
#[kani::stub(std::string::String::with_capacity, stub_string_with_capacity)]
fn c18_escape_2() {
    c18_body::<2>();
}

// @verif props=C18 tier=quick timeout=3600 mem=16 unwind=5 bound="s = 3 arbitrary scalar values" funcs="api::escape" stubs="String::with_capacity -> fixed 32-byte buffer; String::push -> same UTF-8 bytes appended without re-allocation (capacity overflow asserted)"
#[kani::proof]
#[kani::unwind(5)]
#[kani::stub(std::string::String::push, stub_string_push)]
#[kani::stub(std::string::String::with_capacity, stub_string_with_capacity)]
fn c18_escape_3() {
    c18_body::<3>();
}

// ===========================================================================================
// C17-H1: expand_replacement == reference expansion, for every template over a small alphabet
// ===========================================================================================

use crate::insn::{CompiledRegex, Insn, StartPredicate};

const SYMS: [&str; 9] = ["$", "0", "1", "2", "9", "{", "}", "a", "é"];
const TEXT: &str = "éy"; // bytes: C3 A9 | y ; boundaries 0 2 3 (short on purpose: every copy loop is unwound to the bound)
const BOUNDS: [usize; 3] = [0, 2, 3];

fn any_text_range() -> Option<Range> {
    if kani::any() {
        let a: usize = kani::any();
        let b: usize = kani::any();
        kani::assume(a <= b && b < 3);
        Some(BOUNDS[a]..BOUNDS[b])
    } else {
        None
    }
}

fn push_bytes(out: &mut [u8; 48], n: &mut usize, src: &[u8]) {
    let mut i = 0;
    while i < src.len() {
        out[*n] = src[i];
        *n += 1;
        i += 1;
    }
}

/// `dollar`: Some(true) = templates that start with '$', Some(false) = the others, None = all (the split only
/// halves the solver instance; the two harnesses together cover every template)
fn c17_body<const L: usize>(dollar: Option<bool>) {
    // template
    let mut sym = [0usize; L];
    let mut tb = [0u8; 8];
    let mut tl = 0usize;
    let mut i = 0;
    while i < L {
        let s: usize = kani::any();
        kani::assume(s < 9);
        if i == 0 {
            match dollar {
                Some(true) => kani::assume(s == 0),
                Some(false) => kani::assume(s != 0),
                None => {}
            }
        }
        sym[i] = s;
        let b = SYMS[s].as_bytes();
        tb[tl] = b[0];
        tl += 1;
        if b.len() == 2 {
            tb[tl] = b[1];
            tl += 1;
        }
        i += 1;
    }
    let template: &str = unsafe { core::str::from_utf8_unchecked(&tb[..tl]) };
    // match: whole range + two groups; group 1 is named "a", group 2 unnamed
    let whole = any_text_range();
    kani::assume(whole.is_some());
    let c1 = any_text_range();
    let c2 = any_text_range();
    let m = Match {
        range: whole.clone().unwrap(),
        captures: vec![c1.clone(), c2.clone()],
        group_names: vec![Box::<str>::from("a"), Box::<str>::from("")].into_boxed_slice(),
    };
    let re = Regex {
        cr: CompiledRegex {
            insns: vec![Insn::Goal],
            brackets: Vec::new(),
            start_pred: StartPredicate::Arbitrary,
            loops: 0,
            groups: 2,
            group_names: Box::new([]),
            flags: Flags::default(),
        },
    };
    let mut out = String::new();
    re.expand_replacement(&m, TEXT, template, &mut out);

    // ---- reference expansion ----
    let tx = TEXT.as_bytes();
    let mut want = [0u8; 48];
    let mut wl = 0usize;
    let group = |n: usize| -> Option<Range> {
        if n == 0 {
            whole.clone()
        } else if n == 1 {
            c1.clone()
        } else if n == 2 {
            c2.clone()
        } else {
            None
        }
    };
    let is_digit = |s: usize| s >= 1 && s <= 4;
    let digit_val = |s: usize| -> usize {
        match s {
            1 => 0,
            2 => 1,
            3 => 2,
            _ => 9,
        }
    };
    let mut grp = false;
    let mut named = false;
    let mut i = 0;
    while i < L {
        let s = sym[i];
        if s == 0 {
            // '$'
            if i + 1 < L && sym[i + 1] == 0 {
                push_bytes(&mut want, &mut wl, b"$");
                i += 2;
            } else if i + 1 < L && is_digit(sym[i + 1]) {
                let mut num = 0usize;
                let mut j = i + 1;
                while j < L && is_digit(sym[j]) {
                    num = num * 10 + digit_val(sym[j]);
                    j += 1;
                    if num > 65535 {
                        break;
                    }
                }
                if let Some(r) = group(num) {
                    grp = grp || r.start < r.end;
                    push_bytes(&mut want, &mut wl, &tx[r]);
                }
                i = j;
            } else if i + 1 < L && sym[i + 1] == 5 {
                // "${": find the closing brace
                let mut k = i + 2;
                let mut close = L;
                while k < L {
                    if close == L && sym[k] == 6 {
                        close = k;
                    }
                    k += 1;
                }
                if close < L {
                    // ${name}: only the name "a" exists (group 1)
                    if close == i + 3 && sym[i + 2] == 7 {
                        if let Some(r) = c1.clone() {
                            named = named || r.start < r.end;
                            push_bytes(&mut want, &mut wl, &tx[r]);
                        }
                    }
                    i = close + 1;
                } else {
                    // unterminated: literal "${" followed by the rest
                    push_bytes(&mut want, &mut wl, b"${");
                    let mut k = i + 2;
                    while k < L {
                        push_bytes(&mut want, &mut wl, SYMS[sym[k]].as_bytes());
                        k += 1;
                    }
                    i = L;
                }
            } else {
                push_bytes(&mut want, &mut wl, b"$");
                i += 1;
            }
        } else {
            push_bytes(&mut want, &mut wl, SYMS[s].as_bytes());
            i += 1;
        }
    }
    let ob = out.as_bytes();
    assert!(ob.len() == wl, "expansion has the wrong length");
    assert!(wl <= 24);
    macro_rules! same_at {
        ($($k:expr),*) => {$(
            if $k < wl {
                assert!(ob[$k] == want[$k], "expansion differs from the reference");
            }
        )*};
    }
    same_at!(0, 1, 2, 3, 4, 5, 6, 7, 8, 9, 10, 11, 12, 13, 14, 15, 16, 17, 18, 19, 20, 21, 22, 23);
    kani::cover!(if dollar == Some(false) { wl >= 2 } else { grp }, "a numbered group was expanded to non-empty text (plain templates: two literal bytes)");
    kani::cover!(L < 4 || named, "a named group was expanded (needs 4 symbols)");
    kani::cover!(dollar == Some(false) || wl == 0, "everything expanded to nothing");
    core::mem::forget(out);
    core::mem::forget(m);
    core::mem::forget(re);
}

// @verif props=C17 mem=9 tier=quick timeout=2400 unwind=5 bound="templates of 2 symbols that start with $, over {$,0,1,2,9,{,},a,e-acute}; 2 groups (one named) with symbolic ranges over the 3-byte text "e-acute y"" funcs="Regex::expand_replacement,Match::group,Match::named_group" stubs="String::{new,with_capacity,push,push_str} -> fixed 32-byte buffer model, capacity overflow asserted"
#[kani::proof]
#[kani::unwind(5)]
#[kani::stub(std::string::String::push, stub_string_push)]
#[kani::stub(std::string::String::push_str, stub_string_push_str)]
#[kani::stub(std::string::String::with_capacity, stub_string_with_capacity)]
#[kani::stub(std::string::String::new, stub_string_new)]
fn c17_expand_2_dollar() {
    c17_body::<2>(Some(true));
}

// @verif props=C17 mem=9 tier=quick timeout=2400 unwind=5 bound="templates of 2 symbols that do not start with $, over {$,0,1,2,9,{,},a,e-acute}; 2 groups (one named) with symbolic ranges over the 3-byte text "e-acute y"" funcs="Regex::expand_replacement,Match::group,Match::named_group" stubs="String::{new,with_capacity,push,push_str} -> fixed 32-byte buffer model, capacity overflow asserted"
#[kani::proof]
#[kani::unwind(5)]
#[kani::stub(std::string::String::push, stub_string_push)]
#[kani::stub(std::string::String::push_str, stub_string_push_str)]
#[kani::stub(std::string::String::with_capacity, stub_string_with_capacity)]
#[kani::stub(std::string::String::new, stub_string_new)]
fn c17_expand_2_plain() {
    c17_body::<2>(Some(false));
}

// @verif props=C17 tier=extended timeout=5400 mem=20 unwind=6 bound="templates of 3 symbols over {$,0,1,2,9,{,},a,e-acute}; 2 groups" funcs="Regex::expand_replacement,Match::group,Match::named_group" stubs="String::{new,with_capacity,push,push_str} -> fixed 32-byte buffer model, capacity overflow asserted"
#[kani::proof]
#[kani::unwind(6)]
#[kani::stub(std::string::String::push, stub_string_push)]
#[kani::stub(std::string::String::push_str, stub_string_push_str)]
#[kani::stub(std::string::String::with_capacity, stub_string_with_capacity)]
#[kani::stub(std::string::String::new, stub_string_new)]
fn c17_expand_3() {
    c17_body::<3>(None);
}

// @verif props=C17 tier=extended timeout=5400 mem=30 unwind=7 bound="templates of 4 symbols (reaches ${a} and $$$1)" funcs="Regex::expand_replacement,Match::group,Match::named_group" stubs="String::{new,with_capacity,push,push_str} -> fixed 32-byte buffer model, capacity overflow asserted"
#[kani::proof]
#[kani::unwind(7)]
#[kani::stub(std::string::String::push, stub_string_push)]
#[kani::stub(std::string::String::push_str, stub_string_push_str)]
#[kani::stub(std::string::String::with_capacity, stub_string_with_capacity)]
#[kani::stub(std::string::String::new, stub_string_new)]
fn c17_expand_4() {
    c17_body::<4>(None);
}

// ===========================================================================================
// C20: the Pattern-trait searcher over an ARBITRARY deterministic engine (feature "pattern")
// ===========================================================================================
mod eng {
    use super::super::*;
    use crate::classicalbacktrack::MatchAttempter;
    use crate::cursor::Direction;
    use crate::indexing::InputIndexer;
    use crate::insn::{CompiledRegex, Insn, StartPredicate};
    use crate::types::IP;
    #[cfg(feature = "pattern")]
    use core::str::pattern::{Pattern, ReverseSearcher, SearchStep, Searcher};

    const NMAX: usize = 2;
    const BYTES: usize = 8;

    pub struct Hay {
        pub n: usize,
        pub buf: [u8; BYTES],
        pub off: [usize; NMAX + 1],
        pub len: usize,
    }

    pub fn any_hay() -> Hay {
        any_hay_upto(NMAX)
    }

    pub fn any_hay_upto(nmax: usize) -> Hay {
        let n: usize = kani::any();
        kani::assume(n <= nmax && n <= NMAX);
        let mut buf = [0u8; BYTES];
        let mut off = [0usize; NMAX + 1];
        let mut at = 0usize;
        let mut i = 0;
        while i < NMAX {
            if i < n {
                let c: u32 = kani::any();
                kani::assume(c <= 0x10FFFF && !(c >= 0xD800 && c <= 0xDFFF));
                at += super::enc(c, &mut buf, at);
            }
            off[i + 1] = at;
            i += 1;
        }
        Hay { n, buf, off, len: at }
    }

    use crate::verif_oracle as vo;

    pub fn stub_try_at_pos<'a: 'a, Input: InputIndexer, Dir: Direction>(
        _this: &mut MatchAttempter<'a, Input>,
        inp: Input,
        ip: IP,
        pos: Input::Position,
        _dir: Dir,
    ) -> Option<Input::Position> {
        if ip != 0 {
            unsafe {
                vo::mark_bad();
            }
        }
        vo::lookup(&inp, pos)
    }

    fn is_boundary(hy: &Hay, o: usize) -> bool {
        let mut i = 0;
        let mut r = false;
        while i <= NMAX {
            if i <= hy.n && hy.off[i] == o {
                r = true;
            }
            i += 1;
        }
        r
    }

    fn any_oracle(hy: &Hay) {
        // entries start as poison; only boundary offsets get a real (arbitrary) answer
        let mut i = 0;
        while i <= NMAX {
            if i <= hy.n {
                let v: Option<usize> = if kani::any() {
                    let j: usize = kani::any();
                    kani::assume(j >= i && j <= hy.n);
                    Some(hy.off[j])
                } else {
                    None
                };
                unsafe {
                    vo::VERIF_ORACLE_END[hy.off[i]] = v;
                }
            }
            i += 1;
        }
        unsafe {
            vo::set_haylen(hy.len);
            vo::reset_calls();
            vo::set_active();
        }
    }

    fn model_first(hy: &Hay, cursor: usize) -> Option<(usize, usize)> {
        let mut i = 0;
        let mut res = None;
        while i <= NMAX {
            if res.is_none() && i <= hy.n && hy.off[i] >= cursor {
                if let Some(e) = unsafe { vo::VERIF_ORACLE_END[hy.off[i]] } {
                    res = Some((hy.off[i], e));
                }
            }
            i += 1;
        }
        res
    }

    fn next_boundary_after(hy: &Hay, o: usize) -> Option<usize> {
        let mut i = 0;
        let mut res = None;
        while i <= NMAX {
            if res.is_none() && i <= hy.n && hy.off[i] > o {
                res = Some(hy.off[i]);
            }
            i += 1;
        }
        res
    }

    fn mk_regex() -> Regex {
        Regex {
            cr: CompiledRegex {
                insns: vec![Insn::Goal],
                brackets: Vec::new(),
                start_pred: StartPredicate::Arbitrary,
                loops: 0,
                groups: 0,
                group_names: Box::new([]),
                flags: Flags::default(),
            },
        }
    }

    #[cfg(feature = "pattern")]
    fn c20_forward_body(nmax: usize) {
        let hy = any_hay_upto(nmax);
        let text: &str = unsafe { core::str::from_utf8_unchecked(&hy.buf[..hy.len]) };
        any_oracle(&hy);
        let re = mk_regex();
        let mut s = (&re).into_searcher(text);
        assert!(s.haystack().len() == hy.len);
        let mut at = 0usize; // where the next step must begin
        let mut cursor: Option<usize> = Some(0); // find_iter model
        let mut done = false;
        let mut nmatch = 0usize;
        let mut step = 0;
        // the longest stream is Match(0,0) Reject(0,1) Match(1,1) ... Match(n,n) Done: 2n+2 calls
        while step < 2 * nmax + 3 {
            let st = s.next();
            match st {
                SearchStep::Done => {
                    if !done {
                        assert!(at == hy.len, "Done before the haystack is covered");
                        // every find_iter match must have been reported
                        let rest = match cursor {
                            None => None,
                            Some(c) => model_first(&hy, c),
                        };
                        assert!(rest.is_none(), "Done although find_iter has another match");
                    }
                    done = true;
                }
                SearchStep::Match(a, b) | SearchStep::Reject(a, b) => {
                    assert!(!done, "a step after Done");
                    assert!(a == at, "steps must be adjacent");
                    assert!(a <= b && b <= hy.len && is_boundary(&hy, a) && is_boundary(&hy, b));
                    at = b;
                    if let SearchStep::Match(_, _) = st {
                        let want = match cursor {
                            None => None,
                            Some(c) => model_first(&hy, c),
                        };
                        assert!(want == Some((a, b)), "Match steps are exactly the find_iter matches, in order");
                        nmatch += 1;
                        cursor = if b != a { Some(b) } else { next_boundary_after(&hy, b) };
                    } else {
                        assert!(a < b, "an empty Reject is useless and stalls callers");
                    }
                }
            }
            step += 1;
        }
        assert!(done, "searcher must finish within 2*chars+3 steps");
        kani::cover!(nmatch >= 2, "two matches");
        kani::cover!(nmatch == hy.n + 1 && hy.n >= 1, "empty match at every position");
        core::mem::forget(re);
    }

    #[cfg(feature = "pattern")]
    fn c20_backward_body(nmax: usize) {
        let hy = any_hay_upto(nmax);
        let text: &str = unsafe { core::str::from_utf8_unchecked(&hy.buf[..hy.len]) };
        any_oracle(&hy);
        let re = mk_regex();
        let mut s = (&re).into_searcher(text);
        let mut at = hy.len; // where the next (earlier) step must END
        let mut done = false;
        let mut nmatch = 0usize;
        let mut step = 0;
        while step < 2 * nmax + 3 {
            match s.next_back() {
                SearchStep::Done => {
                    if !done {
                        assert!(at == 0, "Done before the haystack is covered");
                    }
                    done = true;
                }
                st @ (SearchStep::Match(_, _) | SearchStep::Reject(_, _)) => {
                    let (a, b, is_match) = match st {
                        SearchStep::Match(a, b) => (a, b, true),
                        SearchStep::Reject(a, b) => (a, b, false),
                        SearchStep::Done => (0, 0, false),
                    };
                    assert!(!done, "a step after Done");
                    assert!(b == at, "steps must be adjacent");
                    assert!(a <= b && is_boundary(&hy, a) && is_boundary(&hy, b));
                    at = a;
                    if is_match {
                        assert!(unsafe { vo::VERIF_ORACLE_END[a] } == Some(b), "a reported match is a match of the engine");
                        nmatch += 1;
                    } else {
                        assert!(a < b, "an empty Reject is useless and stalls callers");
                    }
                }
            }
            step += 1;
        }
        assert!(done, "reverse searcher must finish within 2*chars+3 steps");
        kani::cover!(if nmax == 0 { done && nmatch == 1 } else { done && hy.n >= 1 && nmatch >= 2 }, "matches found from the back (two when there is a character)");
        core::mem::forget(re);
    }

    // @verif props=C20 tier=quick builds=pattern_index sub=eng timeout=3000 mem=16 unwind=6 bound="haystack <= 1 symbolic scalar (1-4 bytes), arbitrary engine table, next() until Done (<= 5 calls)" funcs="RegexSearcher::next,Regex::find_from,<&Regex as Pattern>::into_searcher,exec::Matches::next,BacktrackExecutor::next_match"
    // @verif stubs="MatchAttempter::try_at_pos -> arbitrary deterministic table END[offset]; BacktrackExecutor::successful_match -> Match{range, no captures, no names} (the regex has no groups)"
    #[kani::proof]
    #[kani::unwind(6)]
    #[kani::stub(crate::classicalbacktrack::MatchAttempter::try_at_pos, stub_try_at_pos)]
    #[kani::stub(crate::classicalbacktrack::BacktrackExecutor::successful_match, crate::classicalbacktrack::verif_model::successful_match_model)]
    #[cfg(feature = "pattern")]
    fn c20_searcher_forward() {
        c20_forward_body(1);
    }

    // @verif props=C20 tier=extended builds=pattern_index sub=eng timeout=7200 mem=24 unwind=8 bound="haystack <= 2 symbolic scalars, arbitrary engine table, next() until Done (<= 7 calls)" funcs="RegexSearcher::next,Regex::find_from,<&Regex as Pattern>::into_searcher,exec::Matches::next,BacktrackExecutor::next_match"
    // @verif stubs="MatchAttempter::try_at_pos -> arbitrary deterministic table END[offset]; BacktrackExecutor::successful_match -> Match{range, no captures, no names} (the regex has no groups)"
    #[kani::proof]
    #[kani::unwind(8)]
    #[kani::stub(crate::classicalbacktrack::MatchAttempter::try_at_pos, stub_try_at_pos)]
    #[kani::stub(crate::classicalbacktrack::BacktrackExecutor::successful_match, crate::classicalbacktrack::verif_model::successful_match_model)]
    #[cfg(feature = "pattern")]
    fn c20_searcher_forward_n2() {
        c20_forward_body(2);
    }

    // @verif props=C20 tier=extended builds=pattern_index sub=eng timeout=3000 mem=16 unwind=6 bound="EMPTY haystack, arbitrary engine table, next_back() until Done (<= 3 calls)" funcs="RegexSearcher::next_back,RegexSearcher::next,Regex::find_from"
    // @verif stubs="MatchAttempter::try_at_pos -> arbitrary deterministic table END[offset]; BacktrackExecutor::successful_match -> Match{range, no captures, no names} (the regex has no groups)"
    #[kani::proof]
    #[kani::unwind(6)]
    #[kani::stub(crate::classicalbacktrack::MatchAttempter::try_at_pos, stub_try_at_pos)]
    #[kani::stub(crate::classicalbacktrack::BacktrackExecutor::successful_match, crate::classicalbacktrack::verif_model::successful_match_model)]
    #[cfg(feature = "pattern")]
    fn c20_searcher_backward_n0() {
        c20_backward_body(0);
    }

    // @verif props=C20 tier=extended builds=pattern_index sub=eng timeout=7200 mem=16 unwind=6 bound="haystack <= 1 symbolic scalar, arbitrary engine table, next_back() until Done (<= 5 calls)" funcs="RegexSearcher::next_back,RegexSearcher::next,Regex::find_from"
    // @verif stubs="MatchAttempter::try_at_pos -> arbitrary deterministic table END[offset]; BacktrackExecutor::successful_match -> Match{range, no captures, no names} (the regex has no groups)"
    #[kani::proof]
    #[kani::unwind(6)]
    #[kani::stub(crate::classicalbacktrack::MatchAttempter::try_at_pos, stub_try_at_pos)]
    #[kani::stub(crate::classicalbacktrack::BacktrackExecutor::successful_match, crate::classicalbacktrack::verif_model::successful_match_model)]
    #[cfg(feature = "pattern")]
    fn c20_searcher_backward() {
        c20_backward_body(1);
    }

    // @verif props=C20 tier=extended builds=pattern_index sub=eng timeout=7200 mem=24 unwind=8 bound="haystack <= 2 symbolic scalars, arbitrary engine table, next_back() until Done (<= 7 calls)" funcs="RegexSearcher::next_back,RegexSearcher::next,Regex::find_from"
    // @verif stubs="MatchAttempter::try_at_pos -> arbitrary deterministic table END[offset]; BacktrackExecutor::successful_match -> Match{range, no captures, no names} (the regex has no groups)"
    #[kani::proof]
    #[kani::unwind(8)]
    #[kani::stub(crate::classicalbacktrack::MatchAttempter::try_at_pos, stub_try_at_pos)]
    #[kani::stub(crate::classicalbacktrack::BacktrackExecutor::successful_match, crate::classicalbacktrack::verif_model::successful_match_model)]
    #[cfg(feature = "pattern")]
    fn c20_searcher_backward_n2() {
        c20_backward_body(2);
    }

    // C17-H2: replace_all / replace_all_with / replace / replace_with are splices over the find_iter
    // sequence.  Engine = arbitrary deterministic table; replacement = the constant "#".
    fn c17_splice_body(all: bool, template: bool, nmax: usize) {
        let hy = any_hay_upto(nmax);
        let text: &str = unsafe { core::str::from_utf8_unchecked(&hy.buf[..hy.len]) };
        any_oracle(&hy);
        let re = mk_regex();
        let got = match (all, template) {
            (true, true) => re.replace_all(text, "#"),
            (true, false) => re.replace_all_with(text, |_m| String::from("#")),
            (false, true) => re.replace(text, "#"),
            (false, false) => re.replace_with(text, |_m| String::from("#")),
        };
        // model: copy unmatched bytes, '#' per match, over the lastIndex sequence
        let mut want = [0u8; 16];
        let mut wl = 0usize;
        let mut copied = 0usize; // haystack bytes consumed so far
        let mut cursor: Option<usize> = Some(0);
        let mut nm = 0usize;
        let mut k = 0;
        while k < nmax + 2 {
            let m = match cursor {
                None => None,
                Some(c) => model_first(&hy, c),
            };
            if let Some((s, e)) = m {
                if all || nm == 0 {
                    let mut i = copied;
                    while i < s {
                        want[wl] = hy.buf[i];
                        wl += 1;
                        i += 1;
                    }
                    want[wl] = b'#';
                    wl += 1;
                    copied = e;
                    nm += 1;
                }
                cursor = if e != s { Some(e) } else { next_boundary_after(&hy, e) };
            } else {
                cursor = None;
            }
            k += 1;
        }
        let mut i = copied;
        while i < hy.len {
            want[wl] = hy.buf[i];
            wl += 1;
            i += 1;
        }
        let gb = got.as_bytes();
        assert!(gb.len() == wl, "spliced result has the wrong length");
        assert!(wl <= 11); // <= 8 haystack bytes and <= 3 matches
        macro_rules! same_at {
            ($($k:expr),*) => {$(
                if $k < wl {
                    assert!(gb[$k] == want[$k], "spliced result differs from the model");
                }
            )*};
        }
        same_at!(0, 1, 2, 3, 4, 5, 6, 7, 8, 9, 10);
        kani::cover!(
            if nmax == 0 {
                nm == 1
            } else if all {
                nm >= 2
            } else {
                nm == 1 && copied < hy.len
            },
            "two replacements (replace: one, with text after it; empty haystack: one)"
        );
        kani::cover!(nm == 0 && (nmax == 0 || hy.len > 0), "no match: haystack returned unchanged");
        kani::cover!(nm == 1 && wl == hy.len + 1, "a single empty match");
        core::mem::forget(got);
        core::mem::forget(re);
    }

    // @verif props=C17 tier=thorough builds=index sub=eng timeout=3000 mem=12 unwind=7 bound="replace_all: constant replacement '#', haystack <= 1 symbolic scalar value(s), arbitrary engine table" funcs="Regex::replace_all,find_iter,exec::Matches::next,expand_replacement"
    // @verif stubs="MatchAttempter::try_at_pos -> arbitrary deterministic table END[offset]; BacktrackExecutor::successful_match -> Match{range, no captures, no names} (the regex has no groups); String::{new,with_capacity,push,push_str} -> fixed 32-byte buffer model, capacity overflow asserted"
    #[kani::proof]
    #[kani::unwind(7)]
    #[kani::stub(std::string::String::push, super::stub_string_push)]
    #[kani::stub(std::string::String::push_str, super::stub_string_push_str)]
    #[kani::stub(std::string::String::with_capacity, super::stub_string_with_capacity)]
    #[kani::stub(std::string::String::new, super::stub_string_new)]
    #[kani::stub(crate::classicalbacktrack::MatchAttempter::try_at_pos, stub_try_at_pos)]
    #[kani::stub(crate::classicalbacktrack::BacktrackExecutor::successful_match, crate::classicalbacktrack::verif_model::successful_match_model)]
    fn c17_splice_replace_all() {
        c17_splice_body(true, true, 1);
    }

    // @verif props=C17 tier=thorough builds=index sub=eng timeout=3000 mem=12 unwind=7 bound="replace_all_with: constant replacement '#', haystack <= 1 symbolic scalar value(s), arbitrary engine table" funcs="Regex::replace_all_with,find_iter,exec::Matches::next"
    // @verif stubs="MatchAttempter::try_at_pos -> arbitrary deterministic table END[offset]; BacktrackExecutor::successful_match -> Match{range, no captures, no names} (the regex has no groups); String::{new,with_capacity,push,push_str} -> fixed 32-byte buffer model, capacity overflow asserted"
    #[kani::proof]
    #[kani::unwind(7)]
    #[kani::stub(std::string::String::push, super::stub_string_push)]
    #[kani::stub(std::string::String::push_str, super::stub_string_push_str)]
    #[kani::stub(std::string::String::with_capacity, super::stub_string_with_capacity)]
    #[kani::stub(std::string::String::new, super::stub_string_new)]
    #[kani::stub(crate::classicalbacktrack::MatchAttempter::try_at_pos, stub_try_at_pos)]
    #[kani::stub(crate::classicalbacktrack::BacktrackExecutor::successful_match, crate::classicalbacktrack::verif_model::successful_match_model)]
    fn c17_splice_replace_all_with() {
        c17_splice_body(true, false, 1);
    }

    // @verif props=C17 tier=quick builds=index sub=eng timeout=3000 mem=8 unwind=7 bound="replace: constant replacement '#', haystack <= 1 symbolic scalar value(s), arbitrary engine table" funcs="Regex::replace,find,expand_replacement"
    // @verif stubs="MatchAttempter::try_at_pos -> arbitrary deterministic table END[offset]; BacktrackExecutor::successful_match -> Match{range, no captures, no names} (the regex has no groups); String::{new,with_capacity,push,push_str} -> fixed 32-byte buffer model, capacity overflow asserted"
    #[kani::proof]
    #[kani::unwind(7)]
    #[kani::stub(std::string::String::push, super::stub_string_push)]
    #[kani::stub(std::string::String::push_str, super::stub_string_push_str)]
    #[kani::stub(std::string::String::with_capacity, super::stub_string_with_capacity)]
    #[kani::stub(std::string::String::new, super::stub_string_new)]
    #[kani::stub(crate::classicalbacktrack::MatchAttempter::try_at_pos, stub_try_at_pos)]
    #[kani::stub(crate::classicalbacktrack::BacktrackExecutor::successful_match, crate::classicalbacktrack::verif_model::successful_match_model)]
    fn c17_splice_replace() {
        c17_splice_body(false, true, 1);
    }

    // @verif props=C17 tier=quick builds=index sub=eng timeout=3000 mem=8 unwind=7 bound="replace_with: constant replacement '#', haystack <= 1 symbolic scalar value(s), arbitrary engine table" funcs="Regex::replace_with,find"
    // @verif stubs="MatchAttempter::try_at_pos -> arbitrary deterministic table END[offset]; BacktrackExecutor::successful_match -> Match{range, no captures, no names} (the regex has no groups); String::{new,with_capacity,push,push_str} -> fixed 32-byte buffer model, capacity overflow asserted"
    #[kani::proof]
    #[kani::unwind(7)]
    #[kani::stub(std::string::String::push, super::stub_string_push)]
    #[kani::stub(std::string::String::push_str, super::stub_string_push_str)]
    #[kani::stub(std::string::String::with_capacity, super::stub_string_with_capacity)]
    #[kani::stub(std::string::String::new, super::stub_string_new)]
    #[kani::stub(crate::classicalbacktrack::MatchAttempter::try_at_pos, stub_try_at_pos)]
    #[kani::stub(crate::classicalbacktrack::BacktrackExecutor::successful_match, crate::classicalbacktrack::verif_model::successful_match_model)]
    fn c17_splice_replace_with() {
        c17_splice_body(false, false, 1);
    }

    // @verif props=C17 tier=extended builds=index sub=eng timeout=7200 mem=24 unwind=10 bound="replace_all: constant replacement '#', haystack <= 2 symbolic scalar value(s), arbitrary engine table" funcs="Regex::replace_all,find_iter,exec::Matches::next,expand_replacement"
    // @verif stubs="MatchAttempter::try_at_pos -> arbitrary deterministic table END[offset]; BacktrackExecutor::successful_match -> Match{range, no captures, no names} (the regex has no groups); String::{new,with_capacity,push,push_str} -> fixed 32-byte buffer model, capacity overflow asserted"
    #[kani::proof]
    #[kani::unwind(10)]
    #[kani::stub(std::string::String::push, super::stub_string_push)]
    #[kani::stub(std::string::String::push_str, super::stub_string_push_str)]
    #[kani::stub(std::string::String::with_capacity, super::stub_string_with_capacity)]
    #[kani::stub(std::string::String::new, super::stub_string_new)]
    #[kani::stub(crate::classicalbacktrack::MatchAttempter::try_at_pos, stub_try_at_pos)]
    #[kani::stub(crate::classicalbacktrack::BacktrackExecutor::successful_match, crate::classicalbacktrack::verif_model::successful_match_model)]
    fn c17_splice_replace_all_n2() {
        c17_splice_body(true, true, 2);
    }

    // @verif props=C17 tier=extended builds=index sub=eng timeout=7200 mem=24 unwind=10 bound="replace_all_with: constant replacement '#', haystack <= 2 symbolic scalar value(s), arbitrary engine table" funcs="Regex::replace_all_with,find_iter,exec::Matches::next"
    // @verif stubs="MatchAttempter::try_at_pos -> arbitrary deterministic table END[offset]; BacktrackExecutor::successful_match -> Match{range, no captures, no names} (the regex has no groups); String::{new,with_capacity,push,push_str} -> fixed 32-byte buffer model, capacity overflow asserted"
    #[kani::proof]
    #[kani::unwind(10)]
    #[kani::stub(std::string::String::push, super::stub_string_push)]
    #[kani::stub(std::string::String::push_str, super::stub_string_push_str)]
    #[kani::stub(std::string::String::with_capacity, super::stub_string_with_capacity)]
    #[kani::stub(std::string::String::new, super::stub_string_new)]
    #[kani::stub(crate::classicalbacktrack::MatchAttempter::try_at_pos, stub_try_at_pos)]
    #[kani::stub(crate::classicalbacktrack::BacktrackExecutor::successful_match, crate::classicalbacktrack::verif_model::successful_match_model)]
    fn c17_splice_replace_all_with_n2() {
        c17_splice_body(true, false, 2);
    }

    // @verif props=C17 tier=extended builds=index sub=eng timeout=7200 mem=24 unwind=10 bound="replace: constant replacement '#', haystack <= 2 symbolic scalar value(s), arbitrary engine table" funcs="Regex::replace,find,expand_replacement"
    // @verif stubs="MatchAttempter::try_at_pos -> arbitrary deterministic table END[offset]; BacktrackExecutor::successful_match -> Match{range, no captures, no names} (the regex has no groups); String::{new,with_capacity,push,push_str} -> fixed 32-byte buffer model, capacity overflow asserted"
    #[kani::proof]
    #[kani::unwind(10)]
    #[kani::stub(std::string::String::push, super::stub_string_push)]
    #[kani::stub(std::string::String::push_str, super::stub_string_push_str)]
    #[kani::stub(std::string::String::with_capacity, super::stub_string_with_capacity)]
    #[kani::stub(std::string::String::new, super::stub_string_new)]
    #[kani::stub(crate::classicalbacktrack::MatchAttempter::try_at_pos, stub_try_at_pos)]
    #[kani::stub(crate::classicalbacktrack::BacktrackExecutor::successful_match, crate::classicalbacktrack::verif_model::successful_match_model)]
    fn c17_splice_replace_n2() {
        c17_splice_body(false, true, 2);
    }

    // @verif props=C17 tier=extended builds=index sub=eng timeout=7200 mem=24 unwind=10 bound="replace_with: constant replacement '#', haystack <= 2 symbolic scalar value(s), arbitrary engine table" funcs="Regex::replace_with,find"
    // @verif stubs="MatchAttempter::try_at_pos -> arbitrary deterministic table END[offset]; BacktrackExecutor::successful_match -> Match{range, no captures, no names} (the regex has no groups); String::{new,with_capacity,push,push_str} -> fixed 32-byte buffer model, capacity overflow asserted"
    #[kani::proof]
    #[kani::unwind(10)]
    #[kani::stub(std::string::String::push, super::stub_string_push)]
    #[kani::stub(std::string::String::push_str, super::stub_string_push_str)]
    #[kani::stub(std::string::String::with_capacity, super::stub_string_with_capacity)]
    #[kani::stub(std::string::String::new, super::stub_string_new)]
    #[kani::stub(crate::classicalbacktrack::MatchAttempter::try_at_pos, stub_try_at_pos)]
    #[kani::stub(crate::classicalbacktrack::BacktrackExecutor::successful_match, crate::classicalbacktrack::verif_model::successful_match_model)]
    fn c17_splice_replace_with_n2() {
        c17_splice_body(false, false, 2);
    }

    // @verif props=C17 tier=quick builds=index sub=eng timeout=1800 mem=8 unwind=5 bound="replace_all: constant replacement '#', EMPTY haystack, arbitrary engine table (match or no match at offset 0)" funcs="Regex::replace_all,find_iter,exec::Matches::next,expand_replacement"
    // @verif stubs="MatchAttempter::try_at_pos -> arbitrary deterministic table END[offset]; BacktrackExecutor::successful_match -> Match{range, no captures, no names} (the regex has no groups); String::{new,with_capacity,push,push_str} -> fixed 32-byte buffer model, capacity overflow asserted"
    #[kani::proof]
    #[kani::unwind(5)]
    #[kani::stub(std::string::String::push, super::stub_string_push)]
    #[kani::stub(std::string::String::push_str, super::stub_string_push_str)]
    #[kani::stub(std::string::String::with_capacity, super::stub_string_with_capacity)]
    #[kani::stub(std::string::String::new, super::stub_string_new)]
    #[kani::stub(crate::classicalbacktrack::MatchAttempter::try_at_pos, stub_try_at_pos)]
    #[kani::stub(crate::classicalbacktrack::BacktrackExecutor::successful_match, crate::classicalbacktrack::verif_model::successful_match_model)]
    fn c17_splice_replace_all_n0() {
        c17_splice_body(true, true, 0);
    }

    // @verif props=C17 tier=quick builds=index sub=eng timeout=1800 mem=8 unwind=5 bound="replace_all_with: constant replacement '#', EMPTY haystack, arbitrary engine table (match or no match at offset 0)" funcs="Regex::replace_all_with,find_iter,exec::Matches::next"
    // @verif stubs="MatchAttempter::try_at_pos -> arbitrary deterministic table END[offset]; BacktrackExecutor::successful_match -> Match{range, no captures, no names} (the regex has no groups); String::{new,with_capacity,push,push_str} -> fixed 32-byte buffer model, capacity overflow asserted"
    #[kani::proof]
    #[kani::unwind(5)]
    #[kani::stub(std::string::String::push, super::stub_string_push)]
    #[kani::stub(std::string::String::push_str, super::stub_string_push_str)]
    #[kani::stub(std::string::String::with_capacity, super::stub_string_with_capacity)]
    #[kani::stub(std::string::String::new, super::stub_string_new)]
    #[kani::stub(crate::classicalbacktrack::MatchAttempter::try_at_pos, stub_try_at_pos)]
    #[kani::stub(crate::classicalbacktrack::BacktrackExecutor::successful_match, crate::classicalbacktrack::verif_model::successful_match_model)]
    fn c17_splice_replace_all_with_n0() {
        c17_splice_body(true, false, 0);
    }
}
