// Kani harnesses for crate::api (child module: sees private items).
// C16: Match accessors; C17: expand_replacement; C18: escape.
#![allow(dead_code, unused_imports)]
use super::*;

// ---------------------------------------------------------------------------
// helpers
// ---------------------------------------------------------------------------

/// A capture value: None or a sub-range of a (conceptual) 8-byte haystack.
fn any_cap() -> Option<Range> {
    if kani::any() {
        let s: usize = kani::any();
        let e: usize = kani::any();
        kani::assume(s <= e && e <= 8);
        Some(s..e)
    } else {
        None
    }
}

const NAMES: [&str; 3] = ["", "a", "b"];

fn name_of(sel: u8) -> &'static str {
    match sel {
        0 => "",
        1 => "a",
        _ => "b",
    }
}

/// Build a Match with exactly N capture slots. `named` selects whether the regex had any named
/// group (group_names has N entries) or none (group_names empty) - the two shapes emit produces.
fn build_match<const N: usize>(caps: &[Option<Range>; N], sels: &[u8; N], named: bool) -> Match {
    let mut captures = Vec::with_capacity(N);
    let mut names: Vec<Box<str>> = Vec::with_capacity(N);
    let mut i = 0;
    while i < N {
        captures.push(caps[i].clone());
        if named {
            names.push(name_of(sels[i]).into());
        }
        i += 1;
    }
    let s: usize = kani::any();
    let e: usize = kani::any();
    kani::assume(s <= e && e <= 8);
    Match {
        range: s..e,
        captures,
        group_names: names.into_boxed_slice(),
    }
}

/// Specification of the named accessors, written against the property text:
/// value reported for name `sel` (1 = "a", 2 = "b"): the holder that participated, if any.
/// Returns (name_present, value).
fn spec_named<const N: usize>(
    caps: &[Option<Range>; N],
    sels: &[u8; N],
    named: bool,
    sel: u8,
) -> (bool, Option<Range>) {
    let mut present = false;
    let mut val: Option<Range> = None;
    if named {
        let mut i = 0;
        while i < N {
            if sels[i] == sel {
                present = true;
                if val.is_none() && caps[i].is_some() {
                    val = caps[i].clone();
                }
            }
            i += 1;
        }
    }
    (present, val)
}

fn c16_body<const N: usize>(sels: [u8; N], named: bool) {
    let caps: [Option<Range>; N] = core::array::from_fn(|_| any_cap());
    // Invariant from the grammar: groups sharing a name sit in different alternatives (and
    // captures inside a loop body are reset per iteration), so at most one holder of a name
    // participates in any match.
    let mut i = 0;
    while i < N {
        let mut j = i + 1;
        while j < N {
            if named && sels[i] != 0 && sels[i] == sels[j] {
                kani::assume(!(caps[i].is_some() && caps[j].is_some()));
            }
            j += 1;
        }
        i += 1;
    }
    let m = build_match::<N>(&caps, &sels, named);

    // group(): 0 is the whole match, 1..=N the slots, beyond that None.
    assert!(m.group(0) == Some(m.range.clone()));
    assert!(m.range() == m.range.clone());
    assert!(m.start() == m.range.start && m.end() == m.range.end);
    let mut i = 0;
    while i < N {
        assert!(m.group(i + 1) == caps[i]);
        i += 1;
    }
    let beyond: usize = kani::any();
    kani::assume(beyond > N);
    assert!(m.group(beyond).is_none());

    // groups(): exactly N+1 items equal to group(i), with exact size hints, fused.
    let mut it = m.groups();
    let mut k = 0;
    while k <= N {
        assert!(it.size_hint() == (N + 1 - k, Some(N + 1 - k)));
        let item = it.next();
        assert!(item.is_some());
        assert!(item.unwrap() == m.group(k));
        k += 1;
    }
    assert!(it.size_hint() == (0, Some(0)));
    assert!(it.next().is_none());
    assert!(it.next().is_none());

    // named_groups(): each distinct non-empty name once, in first-occurrence order, with the
    // value of the participating holder.
    let mut ng = m.named_groups();
    let mut seen_a = false;
    let mut seen_b = false;
    let mut i = 0;
    while i < N {
        if named && sels[i] != 0 {
            let first = if sels[i] == 1 { !seen_a } else { !seen_b };
            if first {
                if sels[i] == 1 {
                    seen_a = true
                } else {
                    seen_b = true
                }
                let item = ng.next();
                assert!(item.is_some());
                let (nm, val) = item.unwrap();
                assert!(nm.len() == 1 && nm.as_bytes()[0] == name_of(sels[i]).as_bytes()[0]);
                let (_, want) = spec_named::<N>(&caps, &sels, named, sels[i]);
                assert!(val == want);
            }
        }
        i += 1;
    }
    assert!(ng.next().is_none());
    assert!(ng.next().is_none());

    // named_group(name) agrees with named_groups() / the participating holder.
    let (_pa, va) = spec_named::<N>(&caps, &sels, named, 1);
    let (_pb, vb) = spec_named::<N>(&caps, &sels, named, 2);
    assert!(m.named_group("a") == va);
    assert!(m.named_group("b") == vb);
    assert!(m.named_group("").is_none());
    assert!(m.named_group("c").is_none());
    assert!(m.named_group("ab").is_none());
    core::mem::forget(m);
}

/// The names side (which comes from the pattern) is enumerated concretely: every assignment of
/// {unnamed, "a", "b"} to N groups (config codes lo..hi in base 3), plus the "no names table"
/// shape.  The captures side (which comes from the haystack) is symbolic.
fn c16_name_configs<const N: usize>(lo: usize, hi: usize) {
    if lo == 0 {
        c16_body::<N>([0; N], false);
    }
    let mut code = lo;
    while code < hi {
        let mut sels = [0u8; N];
        let mut c = code;
        let mut i = 0;
        while i < N {
            sels[i] = (c % 3) as u8;
            c /= 3;
            i += 1;
        }
        c16_body::<N>(sels, true);
        code += 1;
    }
    kani::cover!(true, "end of harness reached");
}

// @verif props=C16 tier=quick timeout=300 bound="0 groups; match range symbolic in 0..=8"
// @verif funcs="Match::group,Match::groups,Groups::next,Groups::size_hint,Match::named_group,Match::named_groups,NamedGroups::next"
#[kani::proof]
#[kani::unwind(12)]
fn c16_accessors_n0() {
    c16_name_configs::<0>(0, 1);
}

// @verif props=C16 tier=quick timeout=600 bound="1 group, name in {unnamed,a,b}; capture None or any s<=e<=8"
// @verif funcs="Match::group,Match::groups,Groups::next,Groups::size_hint,Match::named_group,Match::named_groups,NamedGroups::next"
#[kani::proof]
#[kani::unwind(12)]
fn c16_accessors_n1() {
    c16_name_configs::<1>(0, 3);
}

// @verif props=C16 tier=quick timeout=900 bound="2 groups, all 9 name assignments over {unnamed,a,b} incl. duplicates; captures symbolic"
// @verif funcs="Match::group,Match::groups,Groups::next,Groups::size_hint,Match::named_group,Match::named_groups,NamedGroups::next"
// @verif assumes="at most one holder of a shared name participates (grammar: duplicates only in different alternatives)"
#[kani::proof]
#[kani::unwind(12)]
fn c16_accessors_n2() {
    c16_name_configs::<2>(0, 9);
}

// @verif props=C16 tier=thorough timeout=2400 bound="3 groups, name assignments 0..9 of 27; captures symbolic"
// @verif funcs="Match::group,Match::groups,Groups::next,Groups::size_hint,Match::named_group,Match::named_groups,NamedGroups::next"
#[kani::proof]
#[kani::unwind(12)]
fn c16_accessors_n3_a() {
    c16_name_configs::<3>(0, 9);
}

// @verif props=C16 tier=thorough timeout=2400 bound="3 groups, name assignments 9..18 of 27; captures symbolic"
// @verif funcs="Match::group,Match::groups,Groups::next,Groups::size_hint,Match::named_group,Match::named_groups,NamedGroups::next"
#[kani::proof]
#[kani::unwind(12)]
fn c16_accessors_n3_b() {
    c16_name_configs::<3>(9, 18);
}

// @verif props=C16 tier=thorough timeout=2400 bound="3 groups, name assignments 18..27 of 27; captures symbolic"
// @verif funcs="Match::group,Match::groups,Groups::next,Groups::size_hint,Match::named_group,Match::named_groups,NamedGroups::next"
#[kani::proof]
#[kani::unwind(12)]
fn c16_accessors_n3_c() {
    c16_name_configs::<3>(18, 27);
}
