// Kani harnesses for crate::codepointset (child module: sees private items).
// C12-H1: the interval-set algebra against plain set semantics, from arbitrary well-formed pre-states.
#![allow(dead_code, unused_imports, unused_variables, unused_mut)]
use super::*;

fn any_iv() -> Interval {
    let a: u32 = kani::any();
    let b: u32 = kani::any();
    kani::assume(a <= b && b <= CODE_POINT_MAX);
    Interval { first: a, last: b }
}

/// An arbitrary well-formed set of exactly K intervals (sorted, disjoint, non-abutting).
fn any_set<const K: usize>() -> (CodePointSet, [Interval; K]) {
    let ivs: [Interval; K] = core::array::from_fn(|_| any_iv());
    let mut i = 1;
    while i < K {
        kani::assume(ivs[i - 1].last + 1 < ivs[i].first);
        i += 1;
    }
    let mut v = Vec::with_capacity(K + 2);
    let mut i = 0;
    while i < K {
        v.push(ivs[i]);
        i += 1;
    }
    (CodePointSet { ivs: v }, ivs)
}

fn model_contains<const K: usize>(ivs: &[Interval; K], cp: u32) -> bool {
    let mut r = false;
    let mut i = 0;
    while i < K {
        if ivs[i].first <= cp && cp <= ivs[i].last {
            r = true;
        }
        i += 1;
    }
    r
}

/// Representation invariant the binary searches rely on.
fn well_formed(s: &CodePointSet, max_len: usize) {
    let n = s.ivs.len();
    assert!(n <= max_len);
    let mut i = 0;
    while i < max_len {
        if i < n {
            assert!(s.ivs[i].first <= s.ivs[i].last && s.ivs[i].last <= CODE_POINT_MAX);
            if i + 1 < n {
                assert!(s.ivs[i].last + 1 < s.ivs[i + 1].first, "sorted, disjoint and non-abutting");
            }
        }
        i += 1;
    }
}

fn any_cp() -> u32 {
    let c: u32 = kani::any();
    kani::assume(c <= CODE_POINT_MAX);
    c
}

fn add_body<const K: usize>() -> usize {
    let (mut s, ivs) = any_set::<K>();
    let niv = any_iv();
    let cp = any_cp();
    s.add(niv);
    well_formed(&s, K + 1);
    assert!(s.contains(cp) == (model_contains(&ivs, cp) || (niv.first <= cp && cp <= niv.last)));
    kani::cover!(s.ivs.len() == K + 1, "inserted as a new interval");
    let n = s.ivs.len();
    core::mem::forget(s);
    n
}

// @verif props=C12,C15 tier=quick timeout=1200 unwind=6 bound="add(any interval) to any well-formed set of 0 intervals; membership of an arbitrary code point" funcs="CodePointSet::add,contains,interval_contains,Interval::mergecmp,SliceHelp::equal_range_by"
#[kani::proof]
#[kani::unwind(6)]
fn c12_cps_add_k0() {
    add_body::<0>();
}
// @verif props=C12,C15 tier=quick timeout=1200 unwind=6 bound="add(any interval) to any well-formed set of 1 interval" funcs="CodePointSet::add,contains"
#[kani::proof]
#[kani::unwind(6)]
fn c12_cps_add_k1() {
    add_body::<1>();
}
// @verif props=C12,C15 tier=quick timeout=1800 unwind=6 bound="add(any interval) to any well-formed set of 2 intervals (insert, extend, merge two)" funcs="CodePointSet::add,contains"
#[kani::proof]
#[kani::unwind(6)]
fn c12_cps_add_k2() {
    let n = add_body::<2>();
    kani::cover!(n == 1, "merged two neighbours");
}
// @verif props=C12 tier=thorough timeout=3000 unwind=7 bound="add(any interval) to any well-formed set of 3 intervals" funcs="CodePointSet::add,contains"
#[kani::proof]
#[kani::unwind(7)]
fn c12_cps_add_k3() {
    let n = add_body::<3>();
    kani::cover!(n == 1, "merged three intervals into one");
}

fn inverted_body<const K: usize>() -> usize {
    let (s, ivs) = any_set::<K>();
    let cp = any_cp();
    let inv = s.inverted();
    well_formed(&inv, K + 1);
    assert!(inv.contains(cp) == !model_contains(&ivs, cp));
    assert!(s.inverted_interval_count() == inv.ivs.len());
    kani::cover!(inv.ivs.len() == K + 1, "gaps on both ends");
    let n = inv.ivs.len();
    core::mem::forget(s);
    core::mem::forget(inv);
    n
}

// @verif props=C12,C15 tier=quick timeout=1200 unwind=6 bound="inverted() of any well-formed set of 0 intervals" funcs="CodePointSet::inverted,inverted_interval_count,contains"
#[kani::proof]
#[kani::unwind(6)]
fn c12_cps_inverted_k0() {
    inverted_body::<0>();
}
// @verif props=C12,C15 tier=quick timeout=1200 unwind=6 bound="inverted() of any well-formed set of 1 interval (incl. touching 0 and 0x10FFFF)" funcs="CodePointSet::inverted,inverted_interval_count"
#[kani::proof]
#[kani::unwind(6)]
fn c12_cps_inverted_k1() {
    let n = inverted_body::<1>();
    kani::cover!(n == 0, "the full set inverts to the empty set");
}
// @verif props=C12,C15 tier=extended timeout=1800 mem=30 unwind=6 bound="inverted() of any well-formed set of 2 intervals" funcs="CodePointSet::inverted,inverted_interval_count"
#[kani::proof]
#[kani::unwind(6)]
fn c12_cps_inverted_k2() {
    let n = inverted_body::<2>();
    kani::cover!(n == 1, "set touches both ends of the code space");
}

fn remove_body<const K: usize, const R: usize>() {
    let (mut s, ivs) = any_set::<K>();
    let (rs, rivs) = any_set::<R>();
    let cp = any_cp();
    s.remove(rs.intervals());
    well_formed(&s, K + R);
    assert!(s.contains(cp) == (model_contains(&ivs, cp) && !model_contains(&rivs, cp)));
    kani::cover!(s.ivs.len() == K + R, "every removal splits an interval");
    core::mem::forget(s);
    core::mem::forget(rs);
}

// @verif props=C12 tier=quick timeout=1800 unwind=7 bound="remove(1 interval) from any well-formed set of 1 interval" funcs="CodePointSet::remove"
#[kani::proof]
#[kani::unwind(7)]
fn c12_cps_remove_1_1() {
    remove_body::<1, 1>();
}
// @verif props=C12 tier=extended timeout=3600 mem=30 unwind=8 bound="remove(2 intervals) from any well-formed set of 2 intervals" funcs="CodePointSet::remove"
#[kani::proof]
#[kani::unwind(8)]
fn c12_cps_remove_2_2() {
    remove_body::<2, 2>();
}

fn intersect_body<const K: usize, const R: usize>() {
    let (mut s, ivs) = any_set::<K>();
    let (rs, rivs) = any_set::<R>();
    let cp = any_cp();
    s.intersect(rs.intervals());
    // intersect's result must again be usable by the binary search in contains()
    well_formed(&s, K + R);
    assert!(s.contains(cp) == (model_contains(&ivs, cp) && model_contains(&rivs, cp)));
    kani::cover!(s.ivs.len() >= 2, "two pieces survive");
    core::mem::forget(s);
    core::mem::forget(rs);
}

// @verif props=C12 tier=quick timeout=1800 unwind=7 bound="intersect(1 interval) with any well-formed set of 2 intervals" funcs="CodePointSet::intersect"
#[kani::proof]
#[kani::unwind(7)]
fn c12_cps_intersect_2_1() {
    intersect_body::<2, 1>();
}
// @verif props=C12 tier=extended timeout=3600 mem=30 unwind=8 bound="intersect(2 intervals) with any well-formed set of 2 intervals" funcs="CodePointSet::intersect"
#[kani::proof]
#[kani::unwind(8)]
fn c12_cps_intersect_2_2() {
    intersect_body::<2, 2>();
}

// add_set: union of two well-formed sets (swaps operands by size internally).
fn add_set_body<const K: usize, const R: usize>() {
    let (mut s, ivs) = any_set::<K>();
    let (rs, rivs) = any_set::<R>();
    let cp = any_cp();
    s.add_set(rs);
    well_formed(&s, K + R);
    assert!(s.contains(cp) == (model_contains(&ivs, cp) || model_contains(&rivs, cp)));
    core::mem::forget(s);
}

// @verif props=C12 tier=quick timeout=2400 unwind=7 bound="add_set: union of well-formed sets of 1 and 2 intervals (operand swap path)" funcs="CodePointSet::add_set,add"
#[kani::proof]
#[kani::unwind(7)]
fn c12_cps_add_set_1_2() {
    add_set_body::<1, 2>();
    kani::cover!(true, "end reached");
}
