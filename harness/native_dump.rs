// Native (not Kani) crate-level module appended to the mirror copy of lib.rs under cfg(verif_native).
// Compiles patterns with the REAL pipeline (try_parse -> optimize -> emit) and prints each
// CompiledRegex as a Rust expression that a Kani harness (child module inside the crate) can paste.
#![allow(dead_code)]
use crate::api::Flags;
use crate::insn::{CompiledRegex, Insn, StartPredicate};
use std::fmt::Write;

fn w_u8s(out: &mut String, v: &[u8]) {
    out.push('[');
    for (i, b) in v.iter().enumerate() {
        if i > 0 {
            out.push_str(", ");
        }
        write!(out, "{}", b).unwrap();
    }
    out.push(']');
}

fn insn_lit(i: &Insn) -> String {
    let mut s = String::new();
    match i {
        Insn::Goal => s.push_str("Insn::Goal"),
        Insn::JustFail => s.push_str("Insn::JustFail"),
        Insn::Char(c) => write!(s, "Insn::Char({})", c).unwrap(),
        Insn::StartOfLine { multiline } => write!(s, "Insn::StartOfLine {{ multiline: {} }}", multiline).unwrap(),
        Insn::EndOfLine { multiline } => write!(s, "Insn::EndOfLine {{ multiline: {} }}", multiline).unwrap(),
        Insn::MatchAny => s.push_str("Insn::MatchAny"),
        Insn::MatchAnyExceptLineTerminator => s.push_str("Insn::MatchAnyExceptLineTerminator"),
        Insn::EnterLoop(f) => write!(
            s,
            "Insn::EnterLoop(LoopFields {{ loop_id: {}, min_iters: {}, max_iters: {}, greedy: {}, exit: {} }})",
            f.loop_id, f.min_iters, f.max_iters, f.greedy, f.exit
        )
        .unwrap(),
        Insn::LoopAgain { begin } => write!(s, "Insn::LoopAgain {{ begin: {} }}", begin).unwrap(),
        Insn::Loop1CharBody { min_iters, max_iters, greedy } => write!(
            s,
            "Insn::Loop1CharBody {{ min_iters: {}, max_iters: {}, greedy: {} }}",
            min_iters, max_iters, greedy
        )
        .unwrap(),
        Insn::Jump { target } => write!(s, "Insn::Jump {{ target: {} }}", target).unwrap(),
        Insn::Alt { secondary } => write!(s, "Insn::Alt {{ secondary: {} }}", secondary).unwrap(),
        Insn::BeginCaptureGroup(g) => write!(s, "Insn::BeginCaptureGroup({})", g).unwrap(),
        Insn::EndCaptureGroup(g) => write!(s, "Insn::EndCaptureGroup({})", g).unwrap(),
        Insn::ResetCaptureGroup(g) => write!(s, "Insn::ResetCaptureGroup({})", g).unwrap(),
        Insn::BackRef { group, icase } => write!(s, "Insn::BackRef {{ group: {}, icase: {} }}", group, icase).unwrap(),
        Insn::Bracket(idx) => write!(s, "Insn::Bracket({})", idx).unwrap(),
        Insn::AsciiBracket(bm) => {
            s.push_str("Insn::AsciiBracket(AsciiBitmap(");
            w_u8s(&mut s, &bm.0);
            s.push_str("))");
        }
        Insn::Lookahead { negate, start_group, end_group, continuation } => write!(
            s,
            "Insn::Lookahead {{ negate: {}, start_group: {}, end_group: {}, continuation: {} }}",
            negate, start_group, end_group, continuation
        )
        .unwrap(),
        Insn::Lookbehind { negate, start_group, end_group, continuation } => write!(
            s,
            "Insn::Lookbehind {{ negate: {}, start_group: {}, end_group: {}, continuation: {} }}",
            negate, start_group, end_group, continuation
        )
        .unwrap(),
        Insn::WordBoundary { invert } => write!(s, "Insn::WordBoundary {{ invert: {} }}", invert).unwrap(),
        Insn::WordBoundaryUnicodeICase { invert } => {
            write!(s, "Insn::WordBoundaryUnicodeICase {{ invert: {} }}", invert).unwrap()
        }
        Insn::CharSet(v) => write!(s, "Insn::CharSet([{}, {}, {}, {}])", v[0], v[1], v[2], v[3]).unwrap(),
        Insn::ByteSet2(b) => {
            s.push_str("Insn::ByteSet2(ByteArraySet(");
            w_u8s(&mut s, &b.0);
            s.push_str("))");
        }
        Insn::ByteSet3(b) => {
            s.push_str("Insn::ByteSet3(ByteArraySet(");
            w_u8s(&mut s, &b.0);
            s.push_str("))");
        }
        Insn::ByteSet4(b) => {
            s.push_str("Insn::ByteSet4(ByteArraySet(");
            w_u8s(&mut s, &b.0);
            s.push_str("))");
        }
        Insn::ByteSeq1(v) => { s.push_str("Insn::ByteSeq1("); w_u8s(&mut s, v); s.push(')'); }
        Insn::ByteSeq2(v) => { s.push_str("Insn::ByteSeq2("); w_u8s(&mut s, v); s.push(')'); }
        Insn::ByteSeq3(v) => { s.push_str("Insn::ByteSeq3("); w_u8s(&mut s, v); s.push(')'); }
        Insn::ByteSeq4(v) => { s.push_str("Insn::ByteSeq4("); w_u8s(&mut s, v); s.push(')'); }
        Insn::ByteSeq5(v) => { s.push_str("Insn::ByteSeq5("); w_u8s(&mut s, v); s.push(')'); }
        Insn::ByteSeq6(v) => { s.push_str("Insn::ByteSeq6("); w_u8s(&mut s, v); s.push(')'); }
        Insn::ByteSeq7(v) => { s.push_str("Insn::ByteSeq7("); w_u8s(&mut s, v); s.push(')'); }
        Insn::ByteSeq8(v) => { s.push_str("Insn::ByteSeq8("); w_u8s(&mut s, v); s.push(')'); }
        Insn::ByteSeq9(v) => { s.push_str("Insn::ByteSeq9("); w_u8s(&mut s, v); s.push(')'); }
        Insn::ByteSeq10(v) => { s.push_str("Insn::ByteSeq10("); w_u8s(&mut s, v); s.push(')'); }
        Insn::ByteSeq11(v) => { s.push_str("Insn::ByteSeq11("); w_u8s(&mut s, v); s.push(')'); }
        Insn::ByteSeq12(v) => { s.push_str("Insn::ByteSeq12("); w_u8s(&mut s, v); s.push(')'); }
        Insn::ByteSeq13(v) => { s.push_str("Insn::ByteSeq13("); w_u8s(&mut s, v); s.push(')'); }
        Insn::ByteSeq14(v) => { s.push_str("Insn::ByteSeq14("); w_u8s(&mut s, v); s.push(')'); }
        Insn::ByteSeq15(v) => { s.push_str("Insn::ByteSeq15("); w_u8s(&mut s, v); s.push(')'); }
        Insn::ByteSeq16(v) => { s.push_str("Insn::ByteSeq16("); w_u8s(&mut s, v); s.push(')'); }
    }
    s
}

/// Kind tag of an instruction (used by the generator to decide whether a program is choice-free).
fn insn_kind(i: &Insn) -> &'static str {
    match i {
        Insn::Goal => "Goal",
        Insn::JustFail => "JustFail",
        Insn::Char(_) => "Char",
        Insn::StartOfLine { .. } => "StartOfLine",
        Insn::EndOfLine { .. } => "EndOfLine",
        Insn::MatchAny => "MatchAny",
        Insn::MatchAnyExceptLineTerminator => "MatchAnyExceptLineTerminator",
        Insn::EnterLoop(f) => {
            if f.min_iters == f.max_iters {
                "EnterLoopExact"
            } else {
                "EnterLoop"
            }
        }
        Insn::LoopAgain { .. } => "LoopAgain",
        Insn::Loop1CharBody { min_iters, max_iters, .. } => {
            if min_iters == max_iters {
                "Loop1CharExact"
            } else {
                "Loop1Char"
            }
        }
        Insn::Jump { .. } => "Jump",
        Insn::Alt { .. } => "Alt",
        Insn::BeginCaptureGroup(_) => "BeginCaptureGroup",
        Insn::EndCaptureGroup(_) => "EndCaptureGroup",
        Insn::ResetCaptureGroup(_) => "ResetCaptureGroup",
        Insn::BackRef { icase, .. } => {
            if *icase {
                "BackRefICase"
            } else {
                "BackRef"
            }
        }
        Insn::Bracket(_) => "Bracket",
        Insn::AsciiBracket(_) => "AsciiBracket",
        Insn::Lookahead { .. } => "Lookahead",
        Insn::Lookbehind { .. } => "Lookbehind",
        Insn::WordBoundary { .. } => "WordBoundary",
        Insn::WordBoundaryUnicodeICase { .. } => "WordBoundaryUnicodeICase",
        Insn::CharSet(_) => "CharSet",
        Insn::ByteSet2(_) | Insn::ByteSet3(_) | Insn::ByteSet4(_) => "ByteSet",
        _ => "ByteSeq",
    }
}

fn start_pred_lit(sp: &StartPredicate) -> (String, String) {
    match sp {
        StartPredicate::Arbitrary => ("StartPredicate::Arbitrary".into(), "Arbitrary".into()),
        StartPredicate::ByteSet1(b) => (format!("StartPredicate::ByteSet1([{}])", b[0]), "ByteSet1".into()),
        StartPredicate::ByteSet2(b) => (format!("StartPredicate::ByteSet2([{}, {}])", b[0], b[1]), "ByteSet2".into()),
        StartPredicate::ByteSet3(b) => {
            (format!("StartPredicate::ByteSet3([{}, {}, {}])", b[0], b[1], b[2]), "ByteSet3".into())
        }
        StartPredicate::ByteSeq(f) => {
            let mut s = String::from("StartPredicate::ByteSeq(Box::new(memchr::memmem::Finder::new(&");
            w_u8s(&mut s, f.needle());
            s.push_str(").into_owned()))");
            let mut n = String::from("ByteSeq:");
            w_u8s(&mut n, f.needle());
            (s, n)
        }
        StartPredicate::ByteBracket(bm) => {
            let mut bytes = Vec::new();
            for b in 0..=255u8 {
                if bm.contains(b) {
                    bytes.push(b);
                }
            }
            let mut s = String::from("StartPredicate::ByteBracket(ByteBitmap::new(&");
            w_u8s(&mut s, &bytes);
            s.push_str("))");
            (s, "ByteBracket".into())
        }
        StartPredicate::StartAnchored => ("StartPredicate::StartAnchored".into(), "StartAnchored".into()),
    }
}


fn u8s_json(v: &[u8]) -> String {
    let mut s = String::from("[");
    for (i, b) in v.iter().enumerate() {
        if i > 0 {
            s.push_str(", ");
        }
        write!(s, "{}", b).unwrap();
    }
    s.push(']');
    s
}

/// Structured form of an instruction for the python-side symbolic bytecode interpreter (symvm.py).
fn insn_json(i: &Insn) -> String {
    match i {
        Insn::Goal => "{\"op\": \"Goal\"}".into(),
        Insn::JustFail => "{\"op\": \"JustFail\"}".into(),
        Insn::Char(c) => format!("{{\"op\": \"Char\", \"c\": {}}}", c),
        Insn::StartOfLine { multiline } => format!("{{\"op\": \"StartOfLine\", \"multiline\": {}}}", multiline),
        Insn::EndOfLine { multiline } => format!("{{\"op\": \"EndOfLine\", \"multiline\": {}}}", multiline),
        Insn::MatchAny => "{\"op\": \"MatchAny\"}".into(),
        Insn::MatchAnyExceptLineTerminator => "{\"op\": \"MatchAnyExceptLineTerminator\"}".into(),
        Insn::EnterLoop(f) => format!(
            "{{\"op\": \"EnterLoop\", \"loop_id\": {}, \"min\": {}, \"max\": {}, \"greedy\": {}, \"exit\": {}}}",
            f.loop_id, f.min_iters, f.max_iters, f.greedy, f.exit
        ),
        Insn::LoopAgain { begin } => format!("{{\"op\": \"LoopAgain\", \"begin\": {}}}", begin),
        Insn::Loop1CharBody { min_iters, max_iters, greedy } => format!(
            "{{\"op\": \"Loop1CharBody\", \"min\": {}, \"max\": {}, \"greedy\": {}}}",
            min_iters, max_iters, greedy
        ),
        Insn::Jump { target } => format!("{{\"op\": \"Jump\", \"target\": {}}}", target),
        Insn::Alt { secondary } => format!("{{\"op\": \"Alt\", \"secondary\": {}}}", secondary),
        Insn::BeginCaptureGroup(g) => format!("{{\"op\": \"BeginCaptureGroup\", \"g\": {}}}", g),
        Insn::EndCaptureGroup(g) => format!("{{\"op\": \"EndCaptureGroup\", \"g\": {}}}", g),
        Insn::ResetCaptureGroup(g) => format!("{{\"op\": \"ResetCaptureGroup\", \"g\": {}}}", g),
        Insn::BackRef { group, icase } => format!("{{\"op\": \"BackRef\", \"g\": {}, \"icase\": {}}}", group, icase),
        Insn::Bracket(idx) => format!("{{\"op\": \"Bracket\", \"idx\": {}}}", idx),
        Insn::AsciiBracket(bm) => {
            let mut bytes = Vec::new();
            for b in 0..=255u8 {
                if crate::bytesearch::ByteSet::contains(bm, b) {
                    bytes.push(b);
                }
            }
            format!("{{\"op\": \"AsciiBracket\", \"bytes\": {}}}", u8s_json(&bytes))
        }
        Insn::Lookahead { negate, start_group, end_group, continuation } => format!(
            "{{\"op\": \"Lookahead\", \"negate\": {}, \"start_group\": {}, \"end_group\": {}, \"continuation\": {}}}",
            negate, start_group, end_group, continuation
        ),
        Insn::Lookbehind { negate, start_group, end_group, continuation } => format!(
            "{{\"op\": \"Lookbehind\", \"negate\": {}, \"start_group\": {}, \"end_group\": {}, \"continuation\": {}}}",
            negate, start_group, end_group, continuation
        ),
        Insn::WordBoundary { invert } => format!("{{\"op\": \"WordBoundary\", \"invert\": {}}}", invert),
        Insn::WordBoundaryUnicodeICase { invert } => {
            format!("{{\"op\": \"WordBoundaryUnicodeICase\", \"invert\": {}}}", invert)
        }
        Insn::CharSet(v) => format!("{{\"op\": \"CharSet\", \"chars\": [{}, {}, {}, {}]}}", v[0], v[1], v[2], v[3]),
        Insn::ByteSet2(b) => format!("{{\"op\": \"ByteSet\", \"bytes\": {}}}", u8s_json(&b.0)),
        Insn::ByteSet3(b) => format!("{{\"op\": \"ByteSet\", \"bytes\": {}}}", u8s_json(&b.0)),
        Insn::ByteSet4(b) => format!("{{\"op\": \"ByteSet\", \"bytes\": {}}}", u8s_json(&b.0)),
        Insn::ByteSeq1(v) => format!("{{\"op\": \"ByteSeq\", \"bytes\": {}}}", u8s_json(v)),
        Insn::ByteSeq2(v) => format!("{{\"op\": \"ByteSeq\", \"bytes\": {}}}", u8s_json(v)),
        Insn::ByteSeq3(v) => format!("{{\"op\": \"ByteSeq\", \"bytes\": {}}}", u8s_json(v)),
        Insn::ByteSeq4(v) => format!("{{\"op\": \"ByteSeq\", \"bytes\": {}}}", u8s_json(v)),
        Insn::ByteSeq5(v) => format!("{{\"op\": \"ByteSeq\", \"bytes\": {}}}", u8s_json(v)),
        Insn::ByteSeq6(v) => format!("{{\"op\": \"ByteSeq\", \"bytes\": {}}}", u8s_json(v)),
        Insn::ByteSeq7(v) => format!("{{\"op\": \"ByteSeq\", \"bytes\": {}}}", u8s_json(v)),
        Insn::ByteSeq8(v) => format!("{{\"op\": \"ByteSeq\", \"bytes\": {}}}", u8s_json(v)),
        Insn::ByteSeq9(v) => format!("{{\"op\": \"ByteSeq\", \"bytes\": {}}}", u8s_json(v)),
        Insn::ByteSeq10(v) => format!("{{\"op\": \"ByteSeq\", \"bytes\": {}}}", u8s_json(v)),
        Insn::ByteSeq11(v) => format!("{{\"op\": \"ByteSeq\", \"bytes\": {}}}", u8s_json(v)),
        Insn::ByteSeq12(v) => format!("{{\"op\": \"ByteSeq\", \"bytes\": {}}}", u8s_json(v)),
        Insn::ByteSeq13(v) => format!("{{\"op\": \"ByteSeq\", \"bytes\": {}}}", u8s_json(v)),
        Insn::ByteSeq14(v) => format!("{{\"op\": \"ByteSeq\", \"bytes\": {}}}", u8s_json(v)),
        Insn::ByteSeq15(v) => format!("{{\"op\": \"ByteSeq\", \"bytes\": {}}}", u8s_json(v)),
        Insn::ByteSeq16(v) => format!("{{\"op\": \"ByteSeq\", \"bytes\": {}}}", u8s_json(v)),
    }
}

fn start_pred_json(sp: &StartPredicate) -> String {
    match sp {
        StartPredicate::Arbitrary => "{\"kind\": \"Arbitrary\"}".into(),
        StartPredicate::ByteSet1(b) => format!("{{\"kind\": \"ByteSet\", \"bytes\": {}}}", u8s_json(b)),
        StartPredicate::ByteSet2(b) => format!("{{\"kind\": \"ByteSet\", \"bytes\": {}}}", u8s_json(b)),
        StartPredicate::ByteSet3(b) => format!("{{\"kind\": \"ByteSet\", \"bytes\": {}}}", u8s_json(b)),
        StartPredicate::ByteSeq(f) => format!("{{\"kind\": \"ByteSeq\", \"bytes\": {}}}", u8s_json(f.needle())),
        StartPredicate::ByteBracket(bm) => {
            let mut bytes = Vec::new();
            for b in 0..=255u8 {
                if bm.contains(b) {
                    bytes.push(b);
                }
            }
            format!("{{\"kind\": \"ByteSet\", \"bytes\": {}}}", u8s_json(&bytes))
        }
        StartPredicate::StartAnchored => "{\"kind\": \"StartAnchored\"}".into(),
    }
}

pub fn program_json(cr: &CompiledRegex) -> String {
    let insns: Vec<String> = cr.insns.iter().map(insn_json).collect();
    let mut brs = Vec::new();
    for b in &cr.brackets {
        let ivs: Vec<String> = b.cps.intervals().iter().map(|iv| format!("[{}, {}]", iv.first, iv.last)).collect();
        brs.push(format!("{{\"invert\": {}, \"ivs\": [{}]}}", b.invert, ivs.join(", ")));
    }
    let names: Vec<String> = cr.group_names.iter().map(|n| format!("{:?}", n.as_ref())).collect();
    format!(
        "{{\"insns\": [{}], \"brackets\": [{}], \"start_pred\": {}, \"loops\": {}, \"groups\": {}, \"group_names\": [{}], \"unicode\": {}, \"icase\": {}}}",
        insns.join(", "),
        brs.join(", "),
        start_pred_json(&cr.start_pred),
        cr.loops,
        cr.groups,
        names.join(", "),
        cr.flags.unicode,
        cr.flags.icase
    )
}

pub fn program_literal(cr: &CompiledRegex) -> (String, Vec<&'static str>, String) {
    let mut s = String::new();
    s.push_str("CompiledRegex {\n        insns: vec![\n");
    let mut kinds = Vec::new();
    for i in &cr.insns {
        writeln!(s, "            {},", insn_lit(i)).unwrap();
        kinds.push(insn_kind(i));
    }
    s.push_str("        ],\n        brackets: vec![\n");
    for b in &cr.brackets {
        write!(s, "            BracketContents {{ invert: {}, cps: CodePointSet::from_sorted_disjoint_intervals(vec![", b.invert)
            .unwrap();
        for iv in b.cps.intervals() {
            write!(s, "Interval {{ first: {}, last: {} }}, ", iv.first, iv.last).unwrap();
        }
        s.push_str("]) },\n");
    }
    let (sp, spk) = start_pred_lit(&cr.start_pred);
    writeln!(s, "        ],\n        start_pred: {},", sp).unwrap();
    writeln!(s, "        loops: {},\n        groups: {},", cr.loops, cr.groups).unwrap();
    s.push_str("        group_names: vec![");
    for n in cr.group_names.iter() {
        write!(s, "Box::<str>::from({:?}), ", n.as_ref()).unwrap();
    }
    s.push_str("].into_boxed_slice(),\n");
    writeln!(
        s,
        "        flags: Flags {{ icase: {}, multiline: {}, dot_all: {}, no_opt: {}, unicode: {}, unicode_sets: {} }},\n    }}",
        cr.flags.icase, cr.flags.multiline, cr.flags.dot_all, cr.flags.no_opt, cr.flags.unicode, cr.flags.unicode_sets
    )
    .unwrap();
    (s, kinds, spk)
}

/// Compile a pattern (code points) with flags; Err(text) on rejection.
pub fn compile(pattern: &[u32], flags: Flags) -> Result<CompiledRegex, String> {
    let mut ire = crate::parse::try_parse(pattern.iter().copied(), flags).map_err(|e| e.text.clone())?;
    if !flags.no_opt {
        crate::optimizer::optimize(&mut ire);
    }
    Ok(crate::emit::emit(&ire))
}

pub fn flags_from(s: &str, no_opt: bool) -> Flags {
    let mut f = Flags::from(s);
    f.no_opt = no_opt;
    f
}

/// One JSON line per (pattern, flags, no_opt): {"ok":bool, "err":..., "lit":..., "kinds":[..], "start_pred":..}
pub fn dump_json(pattern: &[u32], flagstr: &str, no_opt: bool) -> String {
    fn esc(s: &str) -> String {
        let mut o = String::new();
        for c in s.chars() {
            match c {
                '"' => o.push_str("\\\""),
                '\\' => o.push_str("\\\\"),
                '\n' => o.push_str("\\n"),
                c if (c as u32) < 0x20 => write!(o, "\\u{:04x}", c as u32).unwrap(),
                c => o.push(c),
            }
        }
        o
    }
    match compile(pattern, flags_from(flagstr, no_opt)) {
        Err(e) => format!("{{\"ok\": false, \"err\": \"{}\"}}", esc(&e)),
        Ok(cr) => {
            let (lit, kinds, spk) = program_literal(&cr);
            let ks: Vec<String> = kinds.iter().map(|k| format!("\"{}\"", k)).collect();
            format!(
                "{{\"ok\": true, \"prog\": {}, \"lit\": \"{}\", \"kinds\": [{}], \"start_pred\": \"{}\", \"groups\": {}, \"loops\": {}, \"ninsns\": {}}}",
                program_json(&cr),
                esc(&lit),
                ks.join(", "),
                esc(&spk),
                cr.groups,
                cr.loops,
                cr.insns.len()
            )
        }
    }
}

/// Run the real matcher natively (used to validate the generated oracle against the real engine
/// on concrete sample inputs before any solver run: "validate the translator").
pub fn find_from_json(pattern: &[u32], flagstr: &str, no_opt: bool, hay: &str, start: usize) -> String {
    find_from_json2(pattern, flagstr, no_opt, hay, start, false)
}

/// The PikeVM executor through the public backends API (both input modes).
#[cfg(feature = "backend-pikevm")]
pub fn find_from_pike_json(pattern: &[u32], flagstr: &str, no_opt: bool, hay: &str, start: usize, ascii: bool) -> String {
    match compile(pattern, flags_from(flagstr, no_opt)) {
        Err(e) => format!("{{\"ok\": false, \"err\": {:?}}}", e),
        Ok(cr) => {
            let re: crate::api::Regex = cr.into();
            if !(start >= hay.len() || hay.is_char_boundary(start)) {
                return "{\"ok\": true, \"skip\": true}".into();
            }
            let m = if ascii {
                crate::api::backends::find_ascii::<crate::api::backends::PikeVMExecutor>(&re, hay, start).next()
            } else {
                crate::api::backends::find::<crate::api::backends::PikeVMExecutor>(&re, hay, start).next()
            };
            match m {
                None => "{\"ok\": true, \"m\": null}".into(),
                Some(m) => {
                    let mut caps = Vec::new();
                    for c in &m.captures {
                        caps.push(match c {
                            None => "null".to_string(),
                            Some(r) => format!("[{}, {}]", r.start, r.end),
                        });
                    }
                    format!("{{\"ok\": true, \"m\": [{}, {}], \"caps\": [{}]}}", m.range.start, m.range.end, caps.join(", "))
                }
            }
        }
    }
}

/// The ASCII entry point (find_from_ascii).
pub fn find_from_ascii_json(pattern: &[u32], flagstr: &str, no_opt: bool, hay: &str, start: usize) -> String {
    match compile(pattern, flags_from(flagstr, no_opt)) {
        Err(e) => format!("{{\"ok\": false, \"err\": {:?}}}", e),
        Ok(cr) => {
            let re: crate::api::Regex = cr.into();
            match re.find_from_ascii(hay, start).next() {
                None => "{\"ok\": true, \"m\": null}".into(),
                Some(m) => {
                    let mut caps = Vec::new();
                    for c in &m.captures {
                        caps.push(match c {
                            None => "null".to_string(),
                            Some(r) => format!("[{}, {}]", r.start, r.end),
                        });
                    }
                    format!("{{\"ok\": true, \"m\": [{}, {}], \"caps\": [{}]}}", m.range.start, m.range.end, caps.join(", "))
                }
            }
        }
    }
}

/// As find_from_json; with `nopred` the compiled start predicate is replaced by Arbitrary (every start
/// offset is attempted), which is the reference the prefilter must agree with (C04).
pub fn find_from_json2(pattern: &[u32], flagstr: &str, no_opt: bool, hay: &str, start: usize, nopred: bool) -> String {
    match compile(pattern, flags_from(flagstr, no_opt)) {
        Err(e) => format!("{{\"ok\": false, \"err\": {:?}}}", e),
        Ok(mut cr) => {
            if nopred {
                cr.start_pred = StartPredicate::Arbitrary;
            }
            let re: crate::api::Regex = cr.into();
            if !(start >= hay.len() || hay.is_char_boundary(start)) {
                return "{\"ok\": true, \"skip\": true}".into();
            }
            match re.find_from(hay, start).next() {
                None => "{\"ok\": true, \"m\": null}".into(),
                Some(m) => {
                    let mut caps = Vec::new();
                    for c in &m.captures {
                        caps.push(match c {
                            None => "null".to_string(),
                            Some(r) => format!("[{}, {}]", r.start, r.end),
                        });
                    }
                    format!("{{\"ok\": true, \"m\": [{}, {}], \"caps\": [{}]}}", m.range.start, m.range.end, caps.join(", "))
                }
            }
        }
    }
}


/// The interval table the real dispatcher (unicode::unicode_property_from_str) returns for a property
/// name/value (kind: gc / sc / scx / bin), as JSON.
pub fn prop_table_json(kind: &str, name: &str) -> String {
    use crate::unicode::{unicode_property_from_str, PropertyEscapeKind, UnicodePropertyName};
    let n = match kind {
        "gc" => Some(UnicodePropertyName::GeneralCategory),
        "sc" => Some(UnicodePropertyName::Script),
        "scx" => Some(UnicodePropertyName::ScriptExtensions),
        _ => None,
    };
    match unicode_property_from_str(name, n, false) {
        Some(PropertyEscapeKind::CharacterClass(t)) => {
            let ivs: Vec<String> = t.iter().map(|iv| format!("[{}, {}]", iv.first, iv.last)).collect();
            format!("{{\"ok\": true, \"some\": true, \"ivs\": [{}]}}", ivs.join(", "))
        }
        _ => "{\"ok\": true, \"some\": false}".into(),
    }
}

/// C09: the match sequence of ONE iterator (find_from / find_from_ascii / backends::find::<PikeVM>) against the
/// sequence obtained by asking a FRESH iterator for its first match at each lastIndex cursor.  engine: "bt",
/// "bta" (ASCII entry point), "pike", "pikea".  Returns both sequences (ranges and captures).
pub fn iter_consistency_json(pattern: &[u32], flagstr: &str, no_opt: bool, hay: &str, start: usize, engine: &str) -> String {
    fn show(m: &crate::api::Match) -> String {
        let mut caps = Vec::new();
        for c in &m.captures {
            caps.push(match c {
                None => "null".to_string(),
                Some(r) => format!("[{}, {}]", r.start, r.end),
            });
        }
        format!("[{}, {}, [{}]]", m.range.start, m.range.end, caps.join(", "))
    }
    match compile(pattern, flags_from(flagstr, no_opt)) {
        Err(e) => format!("{{\"ok\": false, \"err\": {:?}}}", e),
        Ok(cr) => {
            let re: crate::api::Regex = cr.into();
            if !(start >= hay.len() || hay.is_char_boundary(start)) {
                return "{\"ok\": true, \"skip\": true}".into();
            }
            let first_at = |re: &crate::api::Regex, from: usize| -> Option<crate::api::Match> {
                match engine {
                    "bt" => re.find_from(hay, from).next(),
                    "bta" => re.find_from_ascii(hay, from).next(),
                    #[cfg(feature = "backend-pikevm")]
                    "pike" => crate::api::backends::find::<crate::api::backends::PikeVMExecutor>(re, hay, from).next(),
                    #[cfg(feature = "backend-pikevm")]
                    "pikea" => crate::api::backends::find_ascii::<crate::api::backends::PikeVMExecutor>(re, hay, from).next(),
                    _ => None,
                }
            };
            let limit = hay.len() + 3;
            let mut a: Vec<String> = Vec::new();
            match engine {
                "bt" => {
                    for m in re.find_from(hay, start).take(limit) {
                        a.push(show(&m));
                    }
                }
                "bta" => {
                    for m in re.find_from_ascii(hay, start).take(limit) {
                        a.push(show(&m));
                    }
                }
                #[cfg(feature = "backend-pikevm")]
                "pike" => {
                    for m in crate::api::backends::find::<crate::api::backends::PikeVMExecutor>(&re, hay, start).take(limit) {
                        a.push(show(&m));
                    }
                }
                #[cfg(feature = "backend-pikevm")]
                "pikea" => {
                    for m in crate::api::backends::find_ascii::<crate::api::backends::PikeVMExecutor>(&re, hay, start).take(limit) {
                        a.push(show(&m));
                    }
                }
                _ => return "{\"ok\": false, \"err\": \"engine not built\"}".into(),
            }
            // the lastIndex unfolding with a fresh iterator per step
            let mut b: Vec<String> = Vec::new();
            let mut cursor = Some(start);
            while let Some(c) = cursor {
                if c > hay.len() || b.len() >= limit {
                    break;
                }
                match first_at(&re, c) {
                    None => cursor = None,
                    Some(m) => {
                        b.push(show(&m));
                        cursor = if m.range.end != m.range.start {
                            Some(m.range.end)
                        } else {
                            // one character past an empty match
                            let mut n = m.range.end + 1;
                            while n < hay.len() && !hay.is_char_boundary(n) {
                                n += 1;
                            }
                            if m.range.end >= hay.len() { None } else { Some(n) }
                        };
                    }
                }
            }
            format!("{{\"ok\": true, \"same\": {}, \"a\": [{}], \"b\": [{}]}}", a == b, a.join(", "), b.join(", "))
        }
    }
}
