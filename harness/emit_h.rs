// Kani harnesses for crate::emit (child module).  C12-H4 / C06 / C07-H3: the ASCII fast path of brackets.
#![allow(dead_code, unused_imports, unused_variables, unused_mut)]
use super::*;
use crate::bytesearch::ByteSet;
use crate::codepointset::{CodePointSet, Interval};

fn any_iv() -> Interval {
    let a: u32 = kani::any();
    let b: u32 = kani::any();
    kani::assume(a <= b && b <= 0x10FFFF);
    Interval { first: a, last: b }
}

fn body(ivs: Vec<Interval>, lo1: u32, hi1: u32, lo2: u32, hi2: u32, two: bool) {
    let invert: bool = kani::any();
    let bc = BracketContents { invert, cps: CodePointSet::from_sorted_disjoint_intervals(ivs) };
    let r = bracket_as_ascii(&bc);
    let max = if two { hi2 } else { hi1 };
    match r {
        None => assert!(invert || max >= 128, "an all-ASCII, non-inverted class must take the bitmap path"),
        Some(bm) => {
            assert!(!invert && max < 128, "the bitmap path is only valid for all-ASCII, non-inverted classes");
            let x: u8 = kani::any();
            let want = (lo1 <= x as u32 && x as u32 <= hi1) || (two && lo2 <= x as u32 && x as u32 <= hi2);
            assert!(bm.contains(x) == want, "bitmap membership equals set membership for every byte");
        }
    }
    kani::cover!(r.is_some(), "bitmap path");
    kani::cover!(r.is_none() && !invert, "non-ASCII class");
    core::mem::forget(bc);
}

// @verif props=C12,C06,C15 tier=quick timeout=1500 unwind=132 bound="bracket of one arbitrary interval, invert symbolic; every byte probed" funcs="emit::bracket_as_ascii,AsciiBitmap::set,AsciiBitmap::contains"
#[kani::proof]
#[kani::unwind(132)]
fn c12_bracket_as_ascii_1() {
    let a = any_iv();
    body(vec![a], a.first, a.last, 0, 0, false);
}

// @verif props=C12,C06 tier=thorough timeout=3600 unwind=132 bound="bracket of two arbitrary well-formed intervals, invert symbolic; every byte probed" funcs="emit::bracket_as_ascii,AsciiBitmap::set,AsciiBitmap::contains"
#[kani::proof]
#[kani::unwind(132)]
fn c12_bracket_as_ascii_2() {
    let a = any_iv();
    let b = any_iv();
    kani::assume(a.last + 1 < b.first);
    body(vec![a, b], a.first, a.last, b.first, b.last, true);
}
