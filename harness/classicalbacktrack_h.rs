// Kani harnesses for crate::classicalbacktrack (child module: sees private items).
// C01-H2 / C02-H2 / C05(step): the loop decision `run_loop` from an arbitrary loop state equals the
//          RepeatMatcher step of ES 22.2.2.3.1, including what is resumed on backtracking, and the
//          undo records restore the loop data exactly.
// C01-H3 / C03-H2 / C13-H3 / C06-H3: the one-character loop `run_scm_loop` and the backtracking over
//          its record yield exactly the positions between min and max, one character at a time.
// C02-H3: undo completeness of state-mutating instructions.
#![allow(dead_code, unused_imports, unused_variables, unused_mut)]
use super::*;
use crate::api::Flags;
use crate::bytesearch::{AsciiBitmap, ByteArraySet, ByteBitmap};
use crate::codepointset::{CodePointSet, Interval};
use crate::types::BracketContents;

fn flags0() -> Flags {
    Flags { icase: false, multiline: false, dot_all: false, no_opt: false, unicode: false, unicode_sets: false }
}

/// The same with StartPredicate::StartAnchored.
fn prog_anchored(insns: Vec<Insn>, loops: u32, groups: u32) -> CompiledRegex {
    CompiledRegex {
        insns,
        brackets: Vec::new(),
        start_pred: StartPredicate::StartAnchored,
        loops,
        groups,
        group_names: Vec::new().into_boxed_slice(),
        flags: flags0(),
    }
}

fn prog(insns: Vec<Insn>, loops: u32, groups: u32) -> CompiledRegex {
    CompiledRegex {
        insns,
        brackets: Vec::new(),
        start_pred: StartPredicate::Arbitrary,
        loops,
        groups,
        group_names: Vec::new().into_boxed_slice(),
        flags: flags0(),
    }
}

/// Typed swap: semantically core::mem::swap, but keeps pointer-typed fields intact for CBMC (the std
/// implementation swaps untyped byte chunks, after which CBMC cannot resolve what a swapped Vec points to).
pub fn stub_swap<T>(a: &mut T, b: &mut T) {
    unsafe {
        let t = core::ptr::read(a);
        core::ptr::copy_nonoverlapping(b as *const T, a as *mut T, 1);
        core::ptr::write(b, t);
    }
}

fn pos_at<I: InputIndexer>(input: &I, off: usize) -> I::Position {
    let p = input.try_move_right(input.left_end(), off);
    assert!(p.is_some());
    p.unwrap()
}

// ------------------------------------------------------------------------------------------
// run_loop: one RepeatMatcher step from an arbitrary state
// ------------------------------------------------------------------------------------------

// @verif props=C01,C02,C15 tier=quick timeout=1500 unwind=6 bound="iters,min,max: any usize with min<=max; entry,pos: any position of a 3-byte haystack; greedy and lazy; any exit target" funcs="MatchAttempter::run_loop,prepare_to_enter_loop"
// @verif assumes="min<=max (parser invariant); iters<=max (iterations are only entered while iters<max)"
#[kani::proof]
#[kani::unwind(6)]
fn c01_run_loop_step() {
    let text = "abc";
    let input = Utf8Input::new(text, false);
    let min: usize = kani::any();
    let max: usize = kani::any();
    kani::assume(min <= max);
    let greedy: bool = kani::any();
    let exit: u32 = kani::any();
    kani::assume(exit >= 2 && exit < 1000);
    let cr = prog(
        vec![
            Insn::EnterLoop(LoopFields { loop_id: 0, min_iters: min, max_iters: max, greedy, exit }),
            Insn::JustFail,
            Insn::Goal,
        ],
        1,
        0,
    );
    let lf = match &cr.insns[0] {
        Insn::EnterLoop(f) => f,
        _ => unreachable!(),
    };
    let iters: usize = kani::any();
    kani::assume(iters <= max);
    let e_off: usize = kani::any();
    let p_off: usize = kani::any();
    kani::assume(e_off <= 3 && p_off <= 3);
    let entry = pos_at(&input, e_off);
    let pos = pos_at(&input, p_off);
    let mut ma = MatchAttempter::<Utf8Input>::new(&cr, input.left_end());
    ma.s.loops[0] = LoopData { iters, entry };

    let r = ma.run_loop(lf, pos, 0);

    // ---- specification (RepeatMatcher, in the "iterations entered so far" convention) ----
    let empty_fail = entry == pos && iters > min; // an iteration beyond min that did not advance
    let can_enter = iters < max;
    let can_leave = iters >= min;
    let ld = ma.s.loops[0];
    if empty_fail || (!can_enter && !can_leave) {
        assert!(r.is_none());
        assert!(ma.bts.len() == 1);
        assert!(ld.iters == iters && ld.entry == entry);
    } else if !can_enter {
        assert!(r == Some(exit as usize));
        assert!(ma.bts.len() == 1);
        assert!(ld.iters == iters && ld.entry == entry);
    } else if !can_leave || greedy {
        // the body is entered now; the record on top restores the loop data exactly
        assert!(r == Some(1));
        assert!(ld.iters == iters + 1 && ld.entry == pos);
        let top = ma.bts.len() - 1;
        match &ma.bts[top] {
            BacktrackInsn::SetLoopData { id, data } => {
                assert!(*id == 0 && data.iters == iters && data.entry == entry);
            }
            _ => assert!(false, "top record must restore the loop data"),
        }
        if can_leave {
            // greedy with both arms viable: below it, leaving the loop at the same position is the alternative
            assert!(ma.bts.len() == 3);
            match &ma.bts[1] {
                BacktrackInsn::SetPosition { ip, pos: p } => assert!(*ip == exit as usize && *p == pos),
                _ => assert!(false, "alternative must be: leave the loop here"),
            }
        } else {
            assert!(ma.bts.len() == 2);
        }
    } else {
        // lazy with both arms viable: leave now; entering the body is the recorded alternative, and the
        // record carries what is needed to restore the data as it was before the loop instruction
        assert!(r == Some(exit as usize));
        assert!(ma.bts.len() == 2);
        match &ma.bts[1] {
            BacktrackInsn::EnterNonGreedyLoop { ip, orig_pos, data } => {
                assert!(*ip == 0 && *orig_pos == entry && data.iters == iters && data.entry == pos);
            }
            _ => assert!(false, "alternative must be: enter the loop body"),
        }
    }
    kani::cover!(empty_fail, "empty iteration rejected");
    kani::cover!(!empty_fail && can_enter && can_leave && greedy, "greedy split");
    kani::cover!(!empty_fail && can_enter && can_leave && !greedy, "lazy split");
    kani::cover!(!empty_fail && can_enter && !can_leave, "mandatory iteration");
    kani::cover!(!empty_fail && !can_enter && can_leave, "max reached");
    core::mem::forget(ma);
    core::mem::forget(cr);
}

// EnterLoop (first entry) resets the iteration count before deciding.
// Resuming each loop-related backtrack record restores exactly what run_loop promised.
// @verif props=C01,C02 tier=quick timeout=1800 unwind=5 bound="hand-built stack [Exhausted, R] for R in {SetPosition, SetLoopData, EnterNonGreedyLoop} with symbolic contents over a 3-byte haystack" funcs="MatchAttempter::try_backtrack(SetPosition,SetLoopData,EnterNonGreedyLoop),prepare_to_enter_loop"
#[kani::proof]
#[kani::unwind(5)]
fn c02_backtrack_loop_records() {
    let text = "abc";
    let input = Utf8Input::new(text, false);
    let cr = prog(
        vec![
            Insn::EnterLoop(LoopFields { loop_id: 0, min_iters: 0, max_iters: 5, greedy: false, exit: 2 }),
            Insn::JustFail,
            Insn::Goal,
        ],
        1,
        0,
    );
    let iters: usize = kani::any();
    kani::assume(iters < usize::MAX);
    let (a, b, c): (usize, usize, usize) = (kani::any(), kani::any(), kani::any());
    kani::assume(a <= 3 && b <= 3 && c <= 3);
    let (pa, pb, pc) = (pos_at(&input, a), pos_at(&input, b), pos_at(&input, c));
    let cur_iters: usize = kani::any();
    let mut ma = MatchAttempter::<Utf8Input>::new(&cr, input.left_end());
    ma.s.loops[0] = LoopData { iters: cur_iters, entry: pc };
    let kind: u8 = kani::any();
    kani::assume(kind < 3);
    let rec = match kind {
        0 => BacktrackInsn::SetPosition { ip: 7, pos: pa },
        1 => BacktrackInsn::SetLoopData { id: 0, data: LoopData { iters, entry: pa } },
        _ => BacktrackInsn::EnterNonGreedyLoop { ip: 0, orig_pos: pa, data: LoopData { iters, entry: pb } },
    };
    ma.bts.push(rec);
    let mut ip = 99usize;
    let mut p = pc;
    let resumed = ma.try_backtrack(&input, &mut ip, &mut p, Forward::new());
    let ld = ma.s.loops[0];
    match kind {
        0 => {
            assert!(resumed && ip == 7 && p == pa && ma.bts.len() == 1);
            assert!(ld.iters == cur_iters && ld.entry == pc);
        }
        1 => {
            assert!(!resumed && ma.bts.len() == 1);
            assert!(ld.iters == iters && ld.entry == pa);
        }
        _ => {
            // resume inside the loop body at the position the loop insn was executed at ...
            assert!(resumed && ip == 1 && p == pb);
            assert!(ld.iters == iters + 1 && ld.entry == pb);
            // ... and leave behind records that restore {iters, entry: orig_pos}
            assert!(ma.bts.len() == 3);
            let mut ip2 = 99usize;
            let mut p2 = pc;
            let again = ma.try_backtrack(&input, &mut ip2, &mut p2, Forward::new());
            assert!(!again && ma.bts.len() == 1);
            let ld2 = ma.s.loops[0];
            assert!(ld2.iters == iters && ld2.entry == pa);
        }
    }
    kani::cover!(kind == 2, "lazy loop re-entered");
    core::mem::forget(ma);
    core::mem::forget(cr);
}

// (thorough only: after the loop decision the instruction pointer is symbolic for CBMC, every further
// interpreter iteration explores all arms)
// @verif props=C01,C02 tier=extended timeout=3600 unwind=8 bound="EnterLoop{min<=max<=2^64-1} followed by JustFail body and Goal exit; stale loop data arbitrary" funcs="MatchAttempter::try_at_pos(EnterLoop arm),run_loop"
#[kani::proof]
#[kani::unwind(8)]
fn c01_enter_loop_resets_iters() {
    let text = "abc";
    let input = Utf8Input::new(text, false);
    let min: usize = kani::any();
    let max: usize = kani::any();
    kani::assume(min <= max);
    let greedy: bool = kani::any();
    // body = JustFail (ip 1), exit = Goal (ip 2): the attempt succeeds iff leaving is allowed at iters == 0
    let cr = prog(
        vec![
            Insn::EnterLoop(LoopFields { loop_id: 0, min_iters: min, max_iters: max, greedy, exit: 2 }),
            Insn::JustFail,
            Insn::Goal,
        ],
        1,
        0,
    );
    let stale: usize = kani::any();
    let p_off: usize = kani::any();
    kani::assume(p_off <= 3);
    let pos = pos_at(&input, p_off);
    let mut ma = MatchAttempter::<Utf8Input>::new(&cr, input.left_end());
    ma.s.loops[0] = LoopData { iters: stale, entry: pos };
    let r = ma.try_at_pos(input, 0, pos, Forward::new());
    assert!(r.is_some() == (min == 0));
    if let Some(e) = r {
        assert!(e == pos);
    }
    assert!(ma.bts.len() == 1);
    kani::cover!(r.is_some(), "loop skipped");
    kani::cover!(r.is_none(), "mandatory iteration failed");
    core::mem::forget(ma);
    core::mem::forget(cr);
}

// ------------------------------------------------------------------------------------------
// undo completeness (C02-H3): after a failed attempt the shared state is bit-identical
// ------------------------------------------------------------------------------------------

fn any_group<'a>(input: &Utf8Input<'a>) -> GroupData<<Utf8Input<'a> as InputIndexer>::Position> {
    let a: usize = kani::any();
    let b: usize = kani::any();
    kani::assume(a <= b && b <= 3);
    let sa: bool = kani::any();
    let sb: bool = kani::any();
    GroupData {
        start: if sa { Some(pos_at(input, a)) } else { None },
        end: if sb { Some(pos_at(input, b)) } else { None },
    }
}

// @verif props=C02,C01 tier=quick timeout=1500 unwind=10 bound="[Begin(0) . End(0) Reset(1) JustFail] on a 3-byte haystack, group 1 arbitrary, both directions" funcs="MatchAttempter::try_at_pos(BeginCaptureGroup,EndCaptureGroup,ResetCaptureGroup,MatchAny),try_backtrack(SetCaptureGroup)"
#[kani::proof]
#[kani::unwind(10)]
fn c02_undo_captures() {
    let text = "abc";
    let input = Utf8Input::new(text, false);
    let cr = prog(
        vec![
            Insn::BeginCaptureGroup(0),
            Insn::MatchAny,
            Insn::EndCaptureGroup(0),
            Insn::ResetCaptureGroup(1),
            Insn::JustFail,
        ],
        0,
        2,
    );
    let g1 = any_group(&input);
    let p_off: usize = kani::any();
    kani::assume(p_off <= 3);
    let pos = pos_at(&input, p_off);
    let mut ma = MatchAttempter::<Utf8Input>::new(&cr, input.left_end());
    ma.s.groups[1] = g1;
    let fwd: bool = kani::any();
    let r = if fwd {
        ma.try_at_pos(input, 0, pos, Forward::new())
    } else {
        ma.try_at_pos(input, 0, pos, Backward::new())
    };
    assert!(r.is_none());
    assert!(ma.bts.len() == 1);
    assert!(ma.s.groups[0].start.is_none() && ma.s.groups[0].end.is_none());
    assert!(ma.s.groups[1].start == g1.start && ma.s.groups[1].end == g1.end);
    kani::cover!(g1.start.is_some() && g1.end.is_some(), "group 1 was set before");
    core::mem::forget(ma);
    core::mem::forget(cr);
}

// Lookaround capture effects: a positive lookaround that matched keeps its captures for the
// continuation and undoes them when the continuation fails; a negative one never leaks captures.
// @verif props=C02,C01 tier=extended timeout=7200 mem=30 unwind=12 bound="[Look{negate,0..1} Begin(0) . End(0) Goal | cont: Char(c) Goal] on 3 symbolic ASCII bytes; lookahead and lookbehind" funcs="MatchAttempter::run_lookaround,try_at_pos(Lookahead,Lookbehind),try_backtrack" stubs="core::mem::swap -> typed swap (same semantics)"
#[kani::proof]
#[kani::unwind(12)]
#[kani::stub(core::mem::swap, stub_swap)]
fn c02_lookaround_capture_effects() {
    let b: [u8; 3] = kani::any();
    kani::assume(b[0] < 0x80 && b[1] < 0x80 && b[2] < 0x80);
    let text: &str = unsafe { core::str::from_utf8_unchecked(&b) };
    let input = Utf8Input::new(text, false);
    let negate: bool = kani::any();
    let behind: bool = kani::any();
    let c: u8 = kani::any();
    kani::assume(c < 0x80);
    let look = if behind {
        Insn::Lookbehind { negate, start_group: 0, end_group: 1, continuation: 5 }
    } else {
        Insn::Lookahead { negate, start_group: 0, end_group: 1, continuation: 5 }
    };
    let cr = prog(
        vec![
            look,
            Insn::BeginCaptureGroup(0),
            Insn::MatchAny,
            Insn::EndCaptureGroup(0),
            Insn::Goal,
            Insn::Char(c as u32),
            Insn::Goal,
        ],
        0,
        1,
    );
    let p_off: usize = kani::any();
    kani::assume(p_off <= 3);
    let pos = pos_at(&input, p_off);
    let mut ma = MatchAttempter::<Utf8Input>::new(&cr, input.left_end());
    let r = ma.try_at_pos(input, 0, pos, Forward::new());
    // specification
    let look_ok = if behind { p_off > 0 } else { p_off < 3 };
    let passes = look_ok != negate;
    let cont_ok = p_off < 3 && b[if p_off < 3 { p_off } else { 0 }] == c;
    assert!(r.is_some() == (passes && cont_ok));
    assert!(ma.bts.len() == 1);
    let g = ma.s.groups[0];
    if r.is_some() {
        assert!(input.pos_to_offset(r.unwrap()) == p_off + 1);
        if negate {
            assert!(g.start.is_none() && g.end.is_none());
        } else {
            let (s, e) = if behind { (p_off - 1, p_off) } else { (p_off, p_off + 1) };
            assert!(g.start.map(|p| input.pos_to_offset(p)) == Some(s));
            assert!(g.end.map(|p| input.pos_to_offset(p)) == Some(e));
        }
    } else {
        // failed attempt: no capture survives
        assert!(g.start.is_none() && g.end.is_none());
    }
    kani::cover!(r.is_some() && !negate && behind, "positive lookbehind keeps its capture");
    kani::cover!(r.is_some() && negate, "negative lookaround passes");
    kani::cover!(r.is_none() && passes, "continuation failed after a successful lookaround");
    core::mem::forget(ma);
    core::mem::forget(cr);
}

// (C13-H3, "a pattern character that cannot be narrowed to the input's element type means: this instruction
// cannot match, the pending alternative must still be tried", was attempted here through try_at_pos on
// [Alt, Char(c), Goal | Goal].  CBMC runs out of memory at 12 GB: the alternative is a choice point, after which
// the interpreter's ip is symbolic (DESIGN 2.5 (a)).  The fact is decided instead by the SMT modes C01/C01n
// (alt_lone_surrogate_or_a) and C13/C13n (alt_nonascii_literal_or_a) with their native confirmation.)

// ------------------------------------------------------------------------------------------
// one-character loops
// ------------------------------------------------------------------------------------------

const NMAX: usize = 3;
const BYTES: usize = 12;

struct HayN<const N: usize, const B: usize> {
    h: [u32; N],
    n: usize,
    buf: [u8; B],
    off: [usize; 4],
    len: usize,
}
type Hay = HayN<NMAX, BYTES>;

fn any_hay(ascii_only: bool) -> Hay {
    any_hay_n::<NMAX, BYTES>(ascii_only)
}

fn any_hay_n<const N: usize, const B: usize>(ascii_only: bool) -> HayN<N, B> {
    let mut h = [0u32; N];
    let n: usize = kani::any();
    kani::assume(n <= N);
    let mut buf = [0u8; B];
    let mut off = [0usize; 4];
    let mut at = 0usize;
    let mut i = 0;
    while i < N {
        if i < n {
            let c: u32 = kani::any();
            kani::assume(c <= 0x10FFFF && !(c >= 0xD800 && c <= 0xDFFF));
            if ascii_only {
                kani::assume(c < 0x80);
            }
            h[i] = c;
            if c < 0x80 {
                buf[at] = c as u8;
                at += 1;
            } else if c < 0x800 {
                buf[at] = 0xC0 | (c >> 6) as u8;
                buf[at + 1] = 0x80 | (c & 0x3F) as u8;
                at += 2;
            } else if c < 0x10000 {
                buf[at] = 0xE0 | (c >> 12) as u8;
                buf[at + 1] = 0x80 | ((c >> 6) & 0x3F) as u8;
                buf[at + 2] = 0x80 | (c & 0x3F) as u8;
                at += 3;
            } else {
                buf[at] = 0xF0 | (c >> 18) as u8;
                buf[at + 1] = 0x80 | ((c >> 12) & 0x3F) as u8;
                buf[at + 2] = 0x80 | ((c >> 6) & 0x3F) as u8;
                buf[at + 3] = 0x80 | (c & 0x3F) as u8;
                at += 4;
            }
        }
        off[i + 1] = at;
        i += 1;
    }
    HayN { h, n, buf, off, len: at }
}

/// Drive run_scm_loop on [Loop1CharBody, <body>, Goal] and then exhaust its backtrack record; compare
/// with "match the body `min` times, then up to `max`; greedy tries longest first, lazy shortest first".
/// `matches(cp)` is the specification of the body on a haystack character.
fn scm_loop_body<I: InputIndexer, F: Fn(u32) -> bool>(
    input: I,
    hy: &Hay,
    body: Insn,
    brackets: Vec<BracketContents>,
    matches: F,
    fwd: bool,
    greedy: bool,
) {
    let min: usize = kani::any();
    let max: usize = kani::any();
    kani::assume(min <= max && max <= 4);
    let mut cr = prog(vec![Insn::Loop1CharBody { min_iters: min, max_iters: max, greedy }, body, Insn::Goal], 0, 0);
    cr.brackets = brackets;
    let i: usize = kani::any();
    kani::assume(i <= hy.n);
    let start = pos_at(&input, hy.off[i]);
    let mut ma = MatchAttempter::<I>::new(&cr, input.left_end());
    let mut pos = start;
    let r = if fwd {
        ma.run_scm_loop(&input, Forward::new(), &mut pos, min, max, 0, greedy)
    } else {
        ma.run_scm_loop(&input, Backward::new(), &mut pos, min, max, 0, greedy)
    };
    // specification: length of the run of matching characters from i in the direction, capped at max
    let mut run = 0usize;
    let mut going = true;
    let mut k = 0;
    while k < NMAX {
        if going && run < max {
            let idx = if fwd { i + run } else { i.wrapping_sub(run + 1) };
            let avail = if fwd { i + run < hy.n } else { run < i };
            if avail && matches(hy.h[idx]) {
                run += 1;
            } else {
                going = false;
            }
        }
        k += 1;
    }
    if run < min {
        assert!(r.is_none(), "fewer than min repetitions must fail");
        assert!(ma.bts.len() == 1);
    } else {
        assert!(r == Some(2), "continuation is the instruction after the body");
        let idx_of = |cnt: usize| if fwd { i + cnt } else { i - cnt };
        let first = if greedy { run } else { min };
        assert!(input.pos_to_offset(pos) == hy.off[idx_of(first)]);
        // The alternatives are recorded as one record {continuation, min position, max position}; resuming it
        // step by step is checked separately (c02_backtrack_loop1char_records).
        if run == min {
            assert!(ma.bts.len() == 1, "no alternative when min == run length");
        } else {
            assert!(ma.bts.len() == 2);
            let (is_greedy, c2, mn, mx) = match &ma.bts[1] {
                BacktrackInsn::GreedyLoop1Char { continuation, min, max } => (true, *continuation, *min, *max),
                BacktrackInsn::NonGreedyLoop1Char { continuation, min, max } => (false, *continuation, *min, *max),
                _ => {
                    assert!(false, "unexpected record");
                    (false, 0, start, start)
                }
            };
            assert!(is_greedy == greedy && c2 == 2);
            assert!(input.pos_to_offset(mn) == hy.off[idx_of(min)]);
            assert!(input.pos_to_offset(mx) == hy.off[idx_of(run)]);
        }
    }
    kani::cover!(r.is_none(), "loop failed");
    kani::cover!(r.is_some() && run > min + 1, "loop with at least two alternatives to backtrack over");
    kani::cover!(r.is_some() && run == min, "loop without alternatives");
    core::mem::forget(ma);
    core::mem::forget(cr);
}

// @verif props=C01,C03,C06,C15 tier=thorough timeout=2400 unwind=7 bound="Loop1CharBody{min<=max<=4} over Char(c), c any u32 <= 0x10FFFF incl. surrogates; haystack <= 3 symbolic scalars; forward, greedy" funcs="MatchAttempter::run_scm_loop,with_scm_loop_impl,with_scm_compute_max,run_scm_loop_impl,compute_max_pos,try_backtrack(GreedyLoop1Char,NonGreedyLoop1Char),scm::Char"
#[kani::proof]
#[kani::unwind(7)]
fn c01_scm_loop_char_utf8_fwd_greedy() {
    let hy = any_hay(false);
    let text: &str = unsafe { core::str::from_utf8_unchecked(&hy.buf[..hy.len]) };
    let input = Utf8Input::new(text, false);
    let c: u32 = kani::any();
    kani::assume(c <= 0x10FFFF);
    scm_loop_body(input, &hy, Insn::Char(c), Vec::new(), |d| d == c, true, true);
    kani::cover!(c >= 0xD800 && c <= 0xDFFF, "pattern character is a surrogate (cannot occur in UTF-8 text)");
}

// @verif props=C01,C03,C06,C15 tier=thorough timeout=2400 unwind=7 bound="Loop1CharBody{min<=max<=4} over Char(c), c any u32 <= 0x10FFFF incl. surrogates; haystack <= 3 symbolic scalars; forward, lazy" funcs="MatchAttempter::run_scm_loop,with_scm_loop_impl,with_scm_compute_max,run_scm_loop_impl,compute_max_pos,try_backtrack(GreedyLoop1Char,NonGreedyLoop1Char),scm::Char"
#[kani::proof]
#[kani::unwind(7)]
fn c01_scm_loop_char_utf8_fwd_lazy() {
    let hy = any_hay(false);
    let text: &str = unsafe { core::str::from_utf8_unchecked(&hy.buf[..hy.len]) };
    let input = Utf8Input::new(text, false);
    let c: u32 = kani::any();
    kani::assume(c <= 0x10FFFF);
    scm_loop_body(input, &hy, Insn::Char(c), Vec::new(), |d| d == c, true, false);
    kani::cover!(c >= 0xD800 && c <= 0xDFFF, "pattern character is a surrogate (cannot occur in UTF-8 text)");
}

// @verif props=C01,C03,C06,C15 tier=thorough timeout=2400 unwind=7 bound="Loop1CharBody{min<=max<=4} over Char(c), c any u32 <= 0x10FFFF incl. surrogates; haystack <= 3 symbolic scalars; backward, greedy" funcs="MatchAttempter::run_scm_loop,with_scm_loop_impl,with_scm_compute_max,run_scm_loop_impl,compute_max_pos,try_backtrack(GreedyLoop1Char,NonGreedyLoop1Char),scm::Char"
#[kani::proof]
#[kani::unwind(7)]
fn c01_scm_loop_char_utf8_bwd_greedy() {
    let hy = any_hay(false);
    let text: &str = unsafe { core::str::from_utf8_unchecked(&hy.buf[..hy.len]) };
    let input = Utf8Input::new(text, false);
    let c: u32 = kani::any();
    kani::assume(c <= 0x10FFFF);
    scm_loop_body(input, &hy, Insn::Char(c), Vec::new(), |d| d == c, false, true);
    kani::cover!(c >= 0xD800 && c <= 0xDFFF, "pattern character is a surrogate (cannot occur in UTF-8 text)");
}

// @verif props=C01,C03,C06,C15 tier=thorough timeout=2400 unwind=7 bound="Loop1CharBody{min<=max<=4} over Char(c), c any u32 <= 0x10FFFF incl. surrogates; haystack <= 3 symbolic scalars; backward, lazy" funcs="MatchAttempter::run_scm_loop,with_scm_loop_impl,with_scm_compute_max,run_scm_loop_impl,compute_max_pos,try_backtrack(GreedyLoop1Char,NonGreedyLoop1Char),scm::Char"
#[kani::proof]
#[kani::unwind(7)]
fn c01_scm_loop_char_utf8_bwd_lazy() {
    let hy = any_hay(false);
    let text: &str = unsafe { core::str::from_utf8_unchecked(&hy.buf[..hy.len]) };
    let input = Utf8Input::new(text, false);
    let c: u32 = kani::any();
    kani::assume(c <= 0x10FFFF);
    scm_loop_body(input, &hy, Insn::Char(c), Vec::new(), |d| d == c, false, false);
    kani::cover!(c >= 0xD800 && c <= 0xDFFF, "pattern character is a surrogate (cannot occur in UTF-8 text)");
}

// @verif props=C13,C03,C06 tier=thorough timeout=2400 unwind=7 bound="Loop1CharBody{min<=max<=4} over Char(c), c any u32 <= 0x10FFFF (mostly not representable as u8); haystack <= 3 symbolic ASCII bytes; AsciiInput; forward, greedy" funcs="MatchAttempter<AsciiInput>::run_scm_loop,with_scm_loop_impl,with_scm_compute_max,try_backtrack"
#[kani::proof]
#[kani::unwind(7)]
fn c13_scm_loop_char_ascii_fwd_greedy() {
    let hy = any_hay(true);
    let text: &str = unsafe { core::str::from_utf8_unchecked(&hy.buf[..hy.len]) };
    let input = AsciiInput::new(text, false);
    let c: u32 = kani::any();
    kani::assume(c <= 0x10FFFF);
    scm_loop_body(input, &hy, Insn::Char(c), Vec::new(), |d| d == c, true, true);
    kani::cover!(c > 0xFF, "pattern character not representable as a byte");
}

// @verif props=C13,C03,C06 tier=quick timeout=2400 unwind=7 bound="Loop1CharBody{min<=max<=4} over Char(c), c any u32 <= 0x10FFFF (mostly not representable as u8); haystack <= 3 symbolic ASCII bytes; AsciiInput; forward, lazy" funcs="MatchAttempter<AsciiInput>::run_scm_loop,with_scm_loop_impl,with_scm_compute_max,try_backtrack"
#[kani::proof]
#[kani::unwind(7)]
fn c13_scm_loop_char_ascii_fwd_lazy() {
    let hy = any_hay(true);
    let text: &str = unsafe { core::str::from_utf8_unchecked(&hy.buf[..hy.len]) };
    let input = AsciiInput::new(text, false);
    let c: u32 = kani::any();
    kani::assume(c <= 0x10FFFF);
    scm_loop_body(input, &hy, Insn::Char(c), Vec::new(), |d| d == c, true, false);
    kani::cover!(c > 0xFF, "pattern character not representable as a byte");
}

// @verif props=C13,C03,C06 tier=quick timeout=2400 unwind=7 bound="Loop1CharBody{min<=max<=4} over Char(c), c any u32 <= 0x10FFFF (mostly not representable as u8); haystack <= 3 symbolic ASCII bytes; AsciiInput; backward, greedy" funcs="MatchAttempter<AsciiInput>::run_scm_loop,with_scm_loop_impl,with_scm_compute_max,try_backtrack"
#[kani::proof]
#[kani::unwind(7)]
fn c13_scm_loop_char_ascii_bwd_greedy() {
    let hy = any_hay(true);
    let text: &str = unsafe { core::str::from_utf8_unchecked(&hy.buf[..hy.len]) };
    let input = AsciiInput::new(text, false);
    let c: u32 = kani::any();
    kani::assume(c <= 0x10FFFF);
    scm_loop_body(input, &hy, Insn::Char(c), Vec::new(), |d| d == c, false, true);
    kani::cover!(c > 0xFF, "pattern character not representable as a byte");
}

// @verif props=C13,C03,C06 tier=thorough timeout=2400 unwind=7 bound="Loop1CharBody{min<=max<=4} over Char(c), c any u32 <= 0x10FFFF (mostly not representable as u8); haystack <= 3 symbolic ASCII bytes; AsciiInput; backward, lazy" funcs="MatchAttempter<AsciiInput>::run_scm_loop,with_scm_loop_impl,with_scm_compute_max,try_backtrack"
#[kani::proof]
#[kani::unwind(7)]
fn c13_scm_loop_char_ascii_bwd_lazy() {
    let hy = any_hay(true);
    let text: &str = unsafe { core::str::from_utf8_unchecked(&hy.buf[..hy.len]) };
    let input = AsciiInput::new(text, false);
    let c: u32 = kani::any();
    kani::assume(c <= 0x10FFFF);
    scm_loop_body(input, &hy, Insn::Char(c), Vec::new(), |d| d == c, false, false);
    kani::cover!(c > 0xFF, "pattern character not representable as a byte");
}

// @verif props=C01,C06 tier=thorough timeout=2400 unwind=7 bound="Loop1CharBody over MatchAnyExceptLineTerminator; haystack <= 3 symbolic scalars; forward, greedy" funcs="run_scm_loop,scm::MatchAnyExceptLineTerminator"
#[kani::proof]
#[kani::unwind(7)]
fn c01_scm_loop_dot_utf8_fwd_greedy() {
    let hy = any_hay(false);
    let text: &str = unsafe { core::str::from_utf8_unchecked(&hy.buf[..hy.len]) };
    let input = Utf8Input::new(text, false);
    scm_loop_body(input, &hy, Insn::MatchAnyExceptLineTerminator, Vec::new(), |d| !(d == 0xA || d == 0xD || d == 0x2028 || d == 0x2029), true, true);
}

// @verif props=C01,C06 tier=thorough timeout=2400 unwind=7 bound="Loop1CharBody over MatchAnyExceptLineTerminator; haystack <= 3 symbolic scalars; forward, lazy" funcs="run_scm_loop,scm::MatchAnyExceptLineTerminator"
#[kani::proof]
#[kani::unwind(7)]
fn c01_scm_loop_dot_utf8_fwd_lazy() {
    let hy = any_hay(false);
    let text: &str = unsafe { core::str::from_utf8_unchecked(&hy.buf[..hy.len]) };
    let input = Utf8Input::new(text, false);
    scm_loop_body(input, &hy, Insn::MatchAnyExceptLineTerminator, Vec::new(), |d| !(d == 0xA || d == 0xD || d == 0x2028 || d == 0x2029), true, false);
}

// @verif props=C01,C06 tier=thorough timeout=2400 unwind=7 bound="Loop1CharBody over MatchAnyExceptLineTerminator; haystack <= 3 symbolic scalars; backward, greedy" funcs="run_scm_loop,scm::MatchAnyExceptLineTerminator"
#[kani::proof]
#[kani::unwind(7)]
fn c01_scm_loop_dot_utf8_bwd_greedy() {
    let hy = any_hay(false);
    let text: &str = unsafe { core::str::from_utf8_unchecked(&hy.buf[..hy.len]) };
    let input = Utf8Input::new(text, false);
    scm_loop_body(input, &hy, Insn::MatchAnyExceptLineTerminator, Vec::new(), |d| !(d == 0xA || d == 0xD || d == 0x2028 || d == 0x2029), false, true);
}

// @verif props=C01,C06 tier=thorough timeout=2400 unwind=7 bound="Loop1CharBody over MatchAnyExceptLineTerminator; haystack <= 3 symbolic scalars; backward, lazy" funcs="run_scm_loop,scm::MatchAnyExceptLineTerminator"
#[kani::proof]
#[kani::unwind(7)]
fn c01_scm_loop_dot_utf8_bwd_lazy() {
    let hy = any_hay(false);
    let text: &str = unsafe { core::str::from_utf8_unchecked(&hy.buf[..hy.len]) };
    let input = Utf8Input::new(text, false);
    scm_loop_body(input, &hy, Insn::MatchAnyExceptLineTerminator, Vec::new(), |d| !(d == 0xA || d == 0xD || d == 0x2028 || d == 0x2029), false, false);
}

// @verif props=C01,C06,C12 tier=thorough timeout=2400 unwind=9 bound="Loop1CharBody over Bracket{invert symbolic, one symbolic interval}; haystack <= 3 symbolic scalars; forward, greedy" funcs="run_scm_loop,scm::Bracket,CharProperties::bracket,CodePointSet::contains"
#[kani::proof]
#[kani::unwind(9)]
fn c01_scm_loop_bracket_utf8_fwd_greedy() {
    let hy = any_hay(false);
    let text: &str = unsafe { core::str::from_utf8_unchecked(&hy.buf[..hy.len]) };
    let input = Utf8Input::new(text, false);
    let lo: u32 = kani::any();
    let hi: u32 = kani::any();
    kani::assume(lo <= hi && hi <= 0x10FFFF);
    let invert: bool = kani::any();
    let bc = BracketContents { invert, cps: CodePointSet::from_sorted_disjoint_intervals(vec![Interval { first: lo, last: hi }]) };
    scm_loop_body(input, &hy, Insn::Bracket(0), vec![bc], |d| (lo <= d && d <= hi) != invert, true, true);
}

// @verif props=C01,C06,C12 tier=extended timeout=2400 unwind=9 bound="Loop1CharBody over Bracket{invert symbolic, one symbolic interval}; haystack <= 3 symbolic scalars; forward, lazy" funcs="run_scm_loop,scm::Bracket,CharProperties::bracket,CodePointSet::contains"
#[kani::proof]
#[kani::unwind(9)]
fn c01_scm_loop_bracket_utf8_fwd_lazy() {
    let hy = any_hay(false);
    let text: &str = unsafe { core::str::from_utf8_unchecked(&hy.buf[..hy.len]) };
    let input = Utf8Input::new(text, false);
    let lo: u32 = kani::any();
    let hi: u32 = kani::any();
    kani::assume(lo <= hi && hi <= 0x10FFFF);
    let invert: bool = kani::any();
    let bc = BracketContents { invert, cps: CodePointSet::from_sorted_disjoint_intervals(vec![Interval { first: lo, last: hi }]) };
    scm_loop_body(input, &hy, Insn::Bracket(0), vec![bc], |d| (lo <= d && d <= hi) != invert, true, false);
}

// @verif props=C01,C06,C12 tier=thorough timeout=2400 unwind=9 bound="Loop1CharBody over Bracket{invert symbolic, one symbolic interval}; haystack <= 3 symbolic scalars; backward, greedy" funcs="run_scm_loop,scm::Bracket,CharProperties::bracket,CodePointSet::contains"
#[kani::proof]
#[kani::unwind(9)]
fn c01_scm_loop_bracket_utf8_bwd_greedy() {
    let hy = any_hay(false);
    let text: &str = unsafe { core::str::from_utf8_unchecked(&hy.buf[..hy.len]) };
    let input = Utf8Input::new(text, false);
    let lo: u32 = kani::any();
    let hi: u32 = kani::any();
    kani::assume(lo <= hi && hi <= 0x10FFFF);
    let invert: bool = kani::any();
    let bc = BracketContents { invert, cps: CodePointSet::from_sorted_disjoint_intervals(vec![Interval { first: lo, last: hi }]) };
    scm_loop_body(input, &hy, Insn::Bracket(0), vec![bc], |d| (lo <= d && d <= hi) != invert, false, true);
}

// @verif props=C01,C06,C12 tier=extended timeout=2400 unwind=9 bound="Loop1CharBody over Bracket{invert symbolic, one symbolic interval}; haystack <= 3 symbolic scalars; backward, lazy" funcs="run_scm_loop,scm::Bracket,CharProperties::bracket,CodePointSet::contains"
#[kani::proof]
#[kani::unwind(9)]
fn c01_scm_loop_bracket_utf8_bwd_lazy() {
    let hy = any_hay(false);
    let text: &str = unsafe { core::str::from_utf8_unchecked(&hy.buf[..hy.len]) };
    let input = Utf8Input::new(text, false);
    let lo: u32 = kani::any();
    let hi: u32 = kani::any();
    kani::assume(lo <= hi && hi <= 0x10FFFF);
    let invert: bool = kani::any();
    let bc = BracketContents { invert, cps: CodePointSet::from_sorted_disjoint_intervals(vec![Interval { first: lo, last: hi }]) };
    scm_loop_body(input, &hy, Insn::Bracket(0), vec![bc], |d| (lo <= d && d <= hi) != invert, false, false);
}

// @verif props=C01,C03,C06 tier=thorough timeout=2400 unwind=7 bound="Loop1CharBody over ByteSeq2(utf8(c)), c any 2-byte scalar; haystack <= 3 symbolic scalars; forward, greedy" funcs="run_scm_loop,scm::MatchByteSeq,cursor::try_match_lit,Utf8Input::match_bytes,next_left_pos,next_right_pos"
#[kani::proof]
#[kani::unwind(7)]
fn c01_scm_loop_byteseq2_utf8_fwd_greedy() {
    let hy = any_hay(false);
    let text: &str = unsafe { core::str::from_utf8_unchecked(&hy.buf[..hy.len]) };
    let input = Utf8Input::new(text, false);
    let c: u32 = kani::any();
    kani::assume(c >= 0x80 && c < 0x800);
    let bytes = [0xC0 | (c >> 6) as u8, 0x80 | (c & 0x3F) as u8];
    scm_loop_body(input, &hy, Insn::ByteSeq2(bytes), Vec::new(), |d| d == c, true, true);
}

// @verif props=C01,C03,C06 tier=thorough timeout=2400 unwind=7 bound="Loop1CharBody over ByteSeq2(utf8(c)), c any 2-byte scalar; haystack <= 3 symbolic scalars; forward, lazy" funcs="run_scm_loop,scm::MatchByteSeq,cursor::try_match_lit,Utf8Input::match_bytes,next_left_pos,next_right_pos"
#[kani::proof]
#[kani::unwind(7)]
fn c01_scm_loop_byteseq2_utf8_fwd_lazy() {
    let hy = any_hay(false);
    let text: &str = unsafe { core::str::from_utf8_unchecked(&hy.buf[..hy.len]) };
    let input = Utf8Input::new(text, false);
    let c: u32 = kani::any();
    kani::assume(c >= 0x80 && c < 0x800);
    let bytes = [0xC0 | (c >> 6) as u8, 0x80 | (c & 0x3F) as u8];
    scm_loop_body(input, &hy, Insn::ByteSeq2(bytes), Vec::new(), |d| d == c, true, false);
}

// @verif props=C01,C03,C06 tier=quick timeout=2400 unwind=7 bound="Loop1CharBody over ByteSeq2(utf8(c)), c any 2-byte scalar; haystack <= 3 symbolic scalars; backward, greedy" funcs="run_scm_loop,scm::MatchByteSeq,cursor::try_match_lit,Utf8Input::match_bytes,next_left_pos,next_right_pos"
#[kani::proof]
#[kani::unwind(7)]
fn c01_scm_loop_byteseq2_utf8_bwd_greedy() {
    let hy = any_hay(false);
    let text: &str = unsafe { core::str::from_utf8_unchecked(&hy.buf[..hy.len]) };
    let input = Utf8Input::new(text, false);
    let c: u32 = kani::any();
    kani::assume(c >= 0x80 && c < 0x800);
    let bytes = [0xC0 | (c >> 6) as u8, 0x80 | (c & 0x3F) as u8];
    scm_loop_body(input, &hy, Insn::ByteSeq2(bytes), Vec::new(), |d| d == c, false, true);
}

// @verif props=C01,C03,C06 tier=thorough timeout=2400 unwind=7 bound="Loop1CharBody over ByteSeq2(utf8(c)), c any 2-byte scalar; haystack <= 3 symbolic scalars; backward, lazy" funcs="run_scm_loop,scm::MatchByteSeq,cursor::try_match_lit,Utf8Input::match_bytes,next_left_pos,next_right_pos"
#[kani::proof]
#[kani::unwind(7)]
fn c01_scm_loop_byteseq2_utf8_bwd_lazy() {
    let hy = any_hay(false);
    let text: &str = unsafe { core::str::from_utf8_unchecked(&hy.buf[..hy.len]) };
    let input = Utf8Input::new(text, false);
    let c: u32 = kani::any();
    kani::assume(c >= 0x80 && c < 0x800);
    let bytes = [0xC0 | (c >> 6) as u8, 0x80 | (c & 0x3F) as u8];
    scm_loop_body(input, &hy, Insn::ByteSeq2(bytes), Vec::new(), |d| d == c, false, false);
}

// @verif props=C01,C03,C06 tier=thorough timeout=2400 unwind=7 bound="Loop1CharBody over ByteSeq3(utf8(c)), c any 3-byte scalar; haystack <= 3 symbolic scalars; forward, greedy" funcs="run_scm_loop,scm::MatchByteSeq"
#[kani::proof]
#[kani::unwind(7)]
fn c01_scm_loop_byteseq3_utf8_fwd_greedy() {
    let hy = any_hay(false);
    let text: &str = unsafe { core::str::from_utf8_unchecked(&hy.buf[..hy.len]) };
    let input = Utf8Input::new(text, false);
    let c: u32 = kani::any();
    kani::assume(c >= 0x800 && c < 0x10000 && !(c >= 0xD800 && c <= 0xDFFF));
    let bytes = [0xE0 | (c >> 12) as u8, 0x80 | ((c >> 6) & 0x3F) as u8, 0x80 | (c & 0x3F) as u8];
    scm_loop_body(input, &hy, Insn::ByteSeq3(bytes), Vec::new(), |d| d == c, true, true);
}

// @verif props=C01,C03,C06 tier=thorough timeout=2400 unwind=7 bound="Loop1CharBody over ByteSeq3(utf8(c)), c any 3-byte scalar; haystack <= 3 symbolic scalars; forward, lazy" funcs="run_scm_loop,scm::MatchByteSeq"
#[kani::proof]
#[kani::unwind(7)]
fn c01_scm_loop_byteseq3_utf8_fwd_lazy() {
    let hy = any_hay(false);
    let text: &str = unsafe { core::str::from_utf8_unchecked(&hy.buf[..hy.len]) };
    let input = Utf8Input::new(text, false);
    let c: u32 = kani::any();
    kani::assume(c >= 0x800 && c < 0x10000 && !(c >= 0xD800 && c <= 0xDFFF));
    let bytes = [0xE0 | (c >> 12) as u8, 0x80 | ((c >> 6) & 0x3F) as u8, 0x80 | (c & 0x3F) as u8];
    scm_loop_body(input, &hy, Insn::ByteSeq3(bytes), Vec::new(), |d| d == c, true, false);
}

// @verif props=C01,C03,C06 tier=thorough timeout=2400 unwind=7 bound="Loop1CharBody over ByteSeq3(utf8(c)), c any 3-byte scalar; haystack <= 3 symbolic scalars; backward, greedy" funcs="run_scm_loop,scm::MatchByteSeq"
#[kani::proof]
#[kani::unwind(7)]
fn c01_scm_loop_byteseq3_utf8_bwd_greedy() {
    let hy = any_hay(false);
    let text: &str = unsafe { core::str::from_utf8_unchecked(&hy.buf[..hy.len]) };
    let input = Utf8Input::new(text, false);
    let c: u32 = kani::any();
    kani::assume(c >= 0x800 && c < 0x10000 && !(c >= 0xD800 && c <= 0xDFFF));
    let bytes = [0xE0 | (c >> 12) as u8, 0x80 | ((c >> 6) & 0x3F) as u8, 0x80 | (c & 0x3F) as u8];
    scm_loop_body(input, &hy, Insn::ByteSeq3(bytes), Vec::new(), |d| d == c, false, true);
}

// @verif props=C01,C03,C06 tier=thorough timeout=2400 unwind=7 bound="Loop1CharBody over ByteSeq3(utf8(c)), c any 3-byte scalar; haystack <= 3 symbolic scalars; backward, lazy" funcs="run_scm_loop,scm::MatchByteSeq"
#[kani::proof]
#[kani::unwind(7)]
fn c01_scm_loop_byteseq3_utf8_bwd_lazy() {
    let hy = any_hay(false);
    let text: &str = unsafe { core::str::from_utf8_unchecked(&hy.buf[..hy.len]) };
    let input = Utf8Input::new(text, false);
    let c: u32 = kani::any();
    kani::assume(c >= 0x800 && c < 0x10000 && !(c >= 0xD800 && c <= 0xDFFF));
    let bytes = [0xE0 | (c >> 12) as u8, 0x80 | ((c >> 6) & 0x3F) as u8, 0x80 | (c & 0x3F) as u8];
    scm_loop_body(input, &hy, Insn::ByteSeq3(bytes), Vec::new(), |d| d == c, false, false);
}

// One backtracking step over a 1-char-loop record: moves exactly one character towards `min`
// (greedy) or towards `max` (lazy), stays inside [min,max] on character boundaries, and pops the record
// when min == max.  By induction this enumerates the repetition counts in priority order.
fn loop1char_record_body(fwd: bool, greedy: bool) {
    let hy = any_hay(false);
    let text: &str = unsafe { core::str::from_utf8_unchecked(&hy.buf[..hy.len]) };
    let input = Utf8Input::new(text, false);
    let cr = prog(vec![Insn::Goal], 0, 0);
    let (a, b): (usize, usize) = (kani::any(), kani::any());
    kani::assume(a <= b && b <= hy.n);
    // forward loops have min <= max, backward loops min >= max (in text order)
    let (imin, imax) = if fwd { (a, b) } else { (b, a) };
    let (pmin, pmax) = (pos_at(&input, hy.off[imin]), pos_at(&input, hy.off[imax]));
    let mut ma = MatchAttempter::<Utf8Input>::new(&cr, input.left_end());
    ma.bts.push(if greedy {
        BacktrackInsn::GreedyLoop1Char { continuation: 5, min: pmin, max: pmax }
    } else {
        BacktrackInsn::NonGreedyLoop1Char { continuation: 5, min: pmin, max: pmax }
    });
    let mut ip = 99usize;
    let mut p = input.left_end();
    let resumed = if fwd {
        ma.try_backtrack(&input, &mut ip, &mut p, Forward::new())
    } else {
        ma.try_backtrack(&input, &mut ip, &mut p, Backward::new())
    };
    if a == b {
        assert!(!resumed && ma.bts.len() == 1);
    } else {
        assert!(resumed && ip == 5 && ma.bts.len() == 2);
        // one character closer: greedy shrinks max towards min, lazy grows min towards max
        let want = if greedy {
            if fwd { imax - 1 } else { imax + 1 }
        } else if fwd {
            imin + 1
        } else {
            imin - 1
        };
        assert!(input.pos_to_offset(p) == hy.off[want]);
        match &ma.bts[1] {
            BacktrackInsn::GreedyLoop1Char { continuation, min, max } => {
                assert!(greedy && *continuation == 5 && *min == pmin && *max == p);
            }
            BacktrackInsn::NonGreedyLoop1Char { continuation, min, max } => {
                assert!(!greedy && *continuation == 5 && *min == p && *max == pmax);
            }
            _ => assert!(false),
        }
    }
    kani::cover!(a + 2 <= b, "at least two characters between min and max");
    kani::cover!(a == b, "exhausted record");
    core::mem::forget(ma);
    core::mem::forget(cr);
}

// @verif props=C01,C02,C06 tier=quick timeout=1800 unwind=6 bound="record {min,max} on any boundaries of a haystack of <= 3 symbolic scalars; forward greedy" funcs="MatchAttempter::try_backtrack(GreedyLoop1Char),Utf8Input::next_left_pos"
#[kani::proof]
#[kani::unwind(6)]
fn c02_backtrack_loop1char_fwd_greedy() {
    loop1char_record_body(true, true);
}
// @verif props=C01,C02,C06 tier=quick timeout=1800 unwind=6 bound="record {min,max} on any boundaries of a haystack of <= 3 symbolic scalars; forward lazy" funcs="MatchAttempter::try_backtrack(NonGreedyLoop1Char),Utf8Input::next_right_pos"
#[kani::proof]
#[kani::unwind(6)]
fn c02_backtrack_loop1char_fwd_lazy() {
    loop1char_record_body(true, false);
}
// @verif props=C01,C02,C06 tier=quick timeout=1800 unwind=6 bound="record {min,max} on any boundaries of a haystack of <= 3 symbolic scalars; backward (lookbehind) greedy" funcs="MatchAttempter::try_backtrack(GreedyLoop1Char),Utf8Input::next_right_pos"
#[kani::proof]
#[kani::unwind(6)]
fn c02_backtrack_loop1char_bwd_greedy() {
    loop1char_record_body(false, true);
}
// @verif props=C01,C02,C06 tier=quick timeout=1800 unwind=6 bound="record {min,max} on any boundaries of a haystack of <= 3 symbolic scalars; backward (lookbehind) lazy" funcs="MatchAttempter::try_backtrack(NonGreedyLoop1Char),Utf8Input::next_left_pos"
#[kani::proof]
#[kani::unwind(6)]
fn c02_backtrack_loop1char_bwd_lazy() {
    loop1char_record_body(false, true == false);
}

// ------------------------------------------------------------------------------------------
// C09 / C04-i: the iteration and search loops over an ARBITRARY deterministic engine.
// `try_at_pos` is stubbed by a symbolic table END[offset] (None = no match at that offset,
// Some(e) = match ending at e); everything above it is the real code.
// ------------------------------------------------------------------------------------------

use crate::verif_oracle as vo;

fn stub_try_at_pos<'a: 'a, Input: InputIndexer, Dir: Direction>(
    this: &mut MatchAttempter<'a, Input>,
    inp: Input,
    ip: IP,
    pos: Input::Position,
    _dir: Dir,
) -> Option<Input::Position> {
    // every attempt starts at instruction 0 with a clean stack and sees the whole haystack
    if ip != 0 || this.bts.len() != 1 {
        unsafe {
            vo::mark_bad();
        }
    }
    vo::lookup(&inp, pos)
}

fn is_boundary<const N: usize, const B: usize>(hy: &HayN<N, B>, o: usize) -> bool {
    let mut i = 0;
    let mut r = false;
    while i <= N {
        if i <= hy.n && hy.off[i] == o {
            r = true;
        }
        i += 1;
    }
    r
}

/// Fill the oracle table with arbitrary ends: for each boundary offset o, None or Some(e) with
/// o <= e <= len and e on a boundary.  Non-boundary offsets are never queried by correct code; they
/// hold a poison value that makes the harness fail if used.
fn any_oracle<const N: usize, const B: usize>(hy: &HayN<N, B>, only_at_zero: bool) {
    // every entry starts as poison (static initialiser); only boundary offsets get a real (arbitrary) answer
    let mut i = 0;
    while i <= N {
        if i <= hy.n {
            let o = hy.off[i];
            let v: Option<usize> = if kani::any() && !(only_at_zero && o != 0) {
                let j: usize = kani::any();
                kani::assume(j >= i && j <= hy.n);
                Some(hy.off[j])
            } else {
                None
            };
            unsafe {
                vo::VERIF_ORACLE_END[o] = v;
            }
        }
        i += 1;
    }
    unsafe {
        vo::set_haylen(hy.len);
        vo::reset_calls();
        vo::set_active();
    }
}

/// Reference: first match at or after cursor (boundary order).
fn model_first<const N: usize, const B: usize>(hy: &HayN<N, B>, cursor: usize, anchored: bool) -> Option<(usize, usize)> {
    let mut i = 0;
    let mut res = None;
    while i <= N {
        if res.is_none() && i <= hy.n && hy.off[i] >= cursor {
            let o = hy.off[i];
            if !anchored || o == cursor {
                if let Some(e) = unsafe { vo::VERIF_ORACLE_END[o] } {
                    res = Some((o, e));
                }
            }
        }
        i += 1;
    }
    res
}

fn next_boundary_after<const N: usize, const B: usize>(hy: &HayN<N, B>, o: usize) -> Option<usize> {
    let mut i = 0;
    let mut res = None;
    while i <= N {
        if res.is_none() && i <= hy.n && hy.off[i] > o {
            res = Some(hy.off[i]);
        }
        i += 1;
    }
    res
}

macro_rules! c09_body {
    ($exec:ty, $cr:expr, $anchored:expr, $ascii:expr, $n:expr) => {{
    let anchored: bool = $anchored;
    let hy = any_hay_n::<{ $n }, { 4 * $n }>($ascii);
    let text: &str = unsafe { core::str::from_utf8_unchecked(&hy.buf[..hy.len]) };
    any_oracle(&hy, anchored);
    let start: usize = kani::any();
    // API precondition of find_from: start beyond the end, or on a char boundary
    kani::assume(start > hy.len || is_boundary(&hy, start));
    kani::assume(start <= BYTES + 3);
    let mut it = exec::Matches::new(<$exec as exec::Executor>::new($cr, text), start);
    let mut cursor: Option<usize> = if start <= hy.len { Some(start) } else { None };
    let mut last_end: usize = 0;
    let mut count = 0usize;
    let mut done = false;
    let mut step = 0;
    while step < $n + 3 {
        let got = it.next();
        let want = match cursor {
            None => None,
            Some(c) => model_first(&hy, c, anchored),
        };
        match want {
            None => {
                assert!(got.is_none(), "iterator yields a match the lastIndex model does not");
                done = true;
                if !anchored {
                    cursor = None;
                }
            }
            Some((s, e)) => {
                assert!(!done, "a match after None");
                assert!(got.is_some(), "iterator misses a match of the lastIndex model");
                let m = got.unwrap();
                assert!(m.range.start == s && m.range.end == e);
                assert!(s >= last_end, "matches overlap or go backwards");
                last_end = e;
                count += 1;
                cursor = if e != s { Some(e) } else { next_boundary_after(&hy, e) };
                core::mem::forget(m);
            }
        }
        step += 1;
    }
    assert!(done, "iteration must be exhausted after at most chars+1 matches");
    assert!(count <= hy.n + 1);
    assert!(vo::calls_ok(), "every attempt sees the whole haystack from instruction 0 with a clean stack");
    kani::cover!(anchored || count >= 2, "at least two matches (unanchored)");
    kani::cover!(anchored || (count == hy.n + 1 && hy.n >= 1), "an empty match at every position (unanchored)");
    kani::cover!(!anchored || count == 1, "the anchored match");
    kani::cover!(start > hy.len, "start beyond the end");
    core::mem::forget(it);
    }};
}

// @verif props=C09,C15 tier=thorough timeout=5400 mem=16 unwind=7 bound="haystack <= 1 symbolic scalars, arbitrary engine table, symbolic start (incl. beyond the end), up to 4 next() calls; StartPredicate::Arbitrary" funcs="exec::Matches::new,Matches::next,BacktrackExecutor::initial_position,next_match,next_match_with_prefix_search,successful_match,Utf8Input::find_bytes,next_right_pos"
// @verif stubs="MatchAttempter::try_at_pos -> arbitrary deterministic table END[offset]" assumes="start is beyond the end or on a char boundary (find_from's documented precondition)"
#[kani::proof]
#[kani::unwind(7)]
#[kani::stub(crate::classicalbacktrack::MatchAttempter::try_at_pos, stub_try_at_pos)]
fn c09_iter_backtrack_utf8() {
    let cr = prog(vec![Insn::Goal], 0, 0);
    c09_body!(BacktrackExecutor<Utf8Input>, &cr, false, false, 1);
    core::mem::forget(cr);
}

// @verif props=C09,C15 tier=extended timeout=5400 mem=16 unwind=8 bound="haystack <= 2 symbolic scalars, arbitrary engine table, symbolic start (incl. beyond the end), up to 5 next() calls; StartPredicate::Arbitrary" funcs="exec::Matches::new,Matches::next,BacktrackExecutor::initial_position,next_match,next_match_with_prefix_search,successful_match,Utf8Input::find_bytes,next_right_pos"
// @verif stubs="MatchAttempter::try_at_pos -> arbitrary deterministic table END[offset]" assumes="start is beyond the end or on a char boundary (find_from's documented precondition)"
#[kani::proof]
#[kani::unwind(8)]
#[kani::stub(crate::classicalbacktrack::MatchAttempter::try_at_pos, stub_try_at_pos)]
fn c09_iter_backtrack_utf8_n2() {
    let cr = prog(vec![Insn::Goal], 0, 0);
    c09_body!(BacktrackExecutor<Utf8Input>, &cr, false, false, 2);
    core::mem::forget(cr);
}

// @verif props=C09 tier=quick timeout=2400 mem=16 unwind=7 bound="as c09_iter_backtrack_utf8 with StartPredicate::StartAnchored and an engine that can only match at offset 0" funcs="BacktrackExecutor::next_match_anchored"
// @verif stubs="MatchAttempter::try_at_pos -> table" assumes="an anchored program matches only at offset 0"
#[kani::proof]
#[kani::unwind(7)]
#[kani::stub(crate::classicalbacktrack::MatchAttempter::try_at_pos, stub_try_at_pos)]
fn c09_iter_backtrack_anchored() {
    let cr = prog_anchored(vec![Insn::Goal], 0, 0);
    c09_body!(BacktrackExecutor<Utf8Input>, &cr, true, false, 1);
    core::mem::forget(cr);
}

// @verif props=C09 tier=extended timeout=5400 mem=16 unwind=8 bound="as c09_iter_backtrack_utf8 with StartPredicate::StartAnchored and an engine that can only match at offset 0" funcs="BacktrackExecutor::next_match_anchored"
// @verif stubs="MatchAttempter::try_at_pos -> table" assumes="an anchored program matches only at offset 0"
#[kani::proof]
#[kani::unwind(8)]
#[kani::stub(crate::classicalbacktrack::MatchAttempter::try_at_pos, stub_try_at_pos)]
fn c09_iter_backtrack_anchored_n2() {
    let cr = prog_anchored(vec![Insn::Goal], 0, 0);
    c09_body!(BacktrackExecutor<Utf8Input>, &cr, true, false, 2);
    core::mem::forget(cr);
}

// @verif props=C09,C13 tier=thorough timeout=2400 mem=16 unwind=7 bound="as c09_iter_backtrack_utf8 through AsciiInput on <= 3 symbolic ASCII bytes" funcs="BacktrackExecutor<AsciiInput>::next_match,AsciiInput::find_bytes,next_right_pos"
// @verif stubs="MatchAttempter::try_at_pos -> table"
#[kani::proof]
#[kani::unwind(7)]
#[kani::stub(crate::classicalbacktrack::MatchAttempter::try_at_pos, stub_try_at_pos)]
fn c09_iter_backtrack_ascii() {
    let cr = prog(vec![Insn::Goal], 0, 0);
    c09_body!(BacktrackExecutor<AsciiInput>, &cr, false, true, 1);
    core::mem::forget(cr);
}

// @verif props=C09,C13 tier=extended timeout=5400 mem=16 unwind=8 bound="as c09_iter_backtrack_utf8 through AsciiInput on <= 3 symbolic ASCII bytes" funcs="BacktrackExecutor<AsciiInput>::next_match,AsciiInput::find_bytes,next_right_pos"
// @verif stubs="MatchAttempter::try_at_pos -> table"
#[kani::proof]
#[kani::unwind(8)]
#[kani::stub(crate::classicalbacktrack::MatchAttempter::try_at_pos, stub_try_at_pos)]
fn c09_iter_backtrack_ascii_n2() {
    let cr = prog(vec![Insn::Goal], 0, 0);
    c09_body!(BacktrackExecutor<AsciiInput>, &cr, false, true, 2);
    core::mem::forget(cr);
}

// ---- thorough variants: haystacks of up to 3 characters ----
// @verif props=C09,C15 tier=extended timeout=5400 mem=20 unwind=9 bound="haystack <= 3 symbolic scalars, arbitrary engine table, symbolic start (incl. beyond the end), up to 6 next() calls; StartPredicate::Arbitrary" funcs="exec::Matches::new,Matches::next,BacktrackExecutor::initial_position,next_match,next_match_with_prefix_search,successful_match,Utf8Input::find_bytes,next_right_pos"
// @verif stubs="MatchAttempter::try_at_pos -> arbitrary deterministic table END[offset]" assumes="start is beyond the end or on a char boundary (find_from's documented precondition)"
#[kani::proof]
#[kani::unwind(9)]
#[kani::stub(crate::classicalbacktrack::MatchAttempter::try_at_pos, stub_try_at_pos)]
fn c09_iter_backtrack_utf8_n3() {
    let cr = prog(vec![Insn::Goal], 0, 0);
    c09_body!(BacktrackExecutor<Utf8Input>, &cr, false, false, 3);
    core::mem::forget(cr);
}

// @verif props=C09 tier=extended timeout=5400 mem=20 unwind=9 bound="as c09_iter_backtrack_utf8 with StartPredicate::StartAnchored and an engine that can only match at offset 0" funcs="BacktrackExecutor::next_match_anchored"
// @verif stubs="MatchAttempter::try_at_pos -> table" assumes="an anchored program matches only at offset 0"
#[kani::proof]
#[kani::unwind(9)]
#[kani::stub(crate::classicalbacktrack::MatchAttempter::try_at_pos, stub_try_at_pos)]
fn c09_iter_backtrack_anchored_n3() {
    let cr = prog_anchored(vec![Insn::Goal], 0, 0);
    c09_body!(BacktrackExecutor<Utf8Input>, &cr, true, false, 3);
    core::mem::forget(cr);
}

// @verif props=C09,C13 tier=extended timeout=5400 mem=20 unwind=9 bound="as c09_iter_backtrack_utf8 through AsciiInput on <= 3 symbolic ASCII bytes" funcs="BacktrackExecutor<AsciiInput>::next_match,AsciiInput::find_bytes,next_right_pos"
// @verif stubs="MatchAttempter::try_at_pos -> table"
#[kani::proof]
#[kani::unwind(9)]
#[kani::stub(crate::classicalbacktrack::MatchAttempter::try_at_pos, stub_try_at_pos)]
fn c09_iter_backtrack_ascii_n3() {
    let cr = prog(vec![Insn::Goal], 0, 0);
    c09_body!(BacktrackExecutor<AsciiInput>, &cr, false, true, 3);
    core::mem::forget(cr);
}
