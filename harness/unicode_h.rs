// Kani harnesses for crate::unicode (child module: sees private items).
// C10-H1: the fold / legacy-uppercase tables, for every code point, against independent oracles.
#![allow(dead_code, unused_imports)]
use super::*;

#[path = "/verif/oracle/fold_oracle.rs"]
mod fo;

/// Binary search of a sorted (key, value) table; returns `c` itself when absent.
fn lookup(tab: &[(u32, u32)], c: u32) -> u32 {
    let mut lo = 0usize;
    let mut hi = tab.len();
    while lo < hi {
        let mid = lo + (hi - lo) / 2;
        let k = tab[mid].0;
        if k == c {
            return tab[mid].1;
        } else if k < c {
            lo = mid + 1;
        } else {
            hi = mid;
        }
    }
    c
}

fn member(tab: &[(u32, u32)], c: u32) -> bool {
    let mut lo = 0usize;
    let mut hi = tab.len();
    while lo < hi {
        let mid = lo + (hi - lo) / 2;
        if tab[mid].0 <= c && c <= tab[mid].1 {
            return true;
        } else if tab[mid].1 < c {
            lo = mid + 1;
        } else {
            hi = mid;
        }
    }
    false
}

/// Oracle: representative (smallest member) of c's simple-case-folding class.
fn rep(c: u32) -> u32 {
    lookup(&fo::FOLD_REP, c)
}

/// Oracle: ES legacy Canonicalize.
fn legacy_canon(c: u32) -> u32 {
    lookup(&fo::UPPER_CANON, c)
}

fn any_cp(lo: u32, hi: u32) -> u32 {
    let c: u32 = kani::any();
    kani::assume(lo <= c && c <= hi);
    c
}

// Two single-variable lemmas.  Together: fold(c) == fold(d)  <=>  rep(c) == rep(d).
//   (=>) rep(c) = rep(fold(c)) = rep(fold(d)) = rep(d)           by A
//   (<=) fold(c) = fold(rep(c)) = fold(rep(d)) = fold(d)         by B
fn lemma_a(lo: u32, hi: u32) {
    let c = any_cp(lo, hi);
    let f = fold(c);
    assert!(f <= 0x10FFFF);
    assert!(rep(f) == rep(c));
    kani::cover!(f != c, "a code point that folds to something else");
    kani::cover!(f == c && rep(c) != c, "a fold target that is not the class minimum");
}

fn lemma_b(lo: u32, hi: u32) {
    let c = any_cp(lo, hi);
    assert!(fold(c) == fold(rep(c)));
    kani::cover!(rep(c) != c, "non-trivial class");
}

// @verif props=C10,C15 tier=quick timeout=1500 mem=12 unwind=14 c15=index,safe,index_safe,alloc bound="all c in 0..=0x7FF" funcs="unicode::fold,FoldRange::apply,FOLDS"
#[kani::proof]
#[kani::unwind(14)]
fn c10_fold_lemma_a_r0() {
    lemma_a(0, 0x7FF);
}
// @verif props=C10,C15 tier=quick timeout=1500 mem=12 unwind=14 c15=index,safe,index_safe,alloc bound="all c in 0x800..=0x2FFF" funcs="unicode::fold,FoldRange::apply,FOLDS"
#[kani::proof]
#[kani::unwind(14)]
fn c10_fold_lemma_a_r1() {
    lemma_a(0x800, 0x2FFF);
}
// @verif props=C10,C15 tier=quick timeout=1500 mem=12 unwind=14 c15=index,safe,index_safe,alloc bound="all c in 0x3000..=0xFFFF" funcs="unicode::fold,FoldRange::apply,FOLDS"
#[kani::proof]
#[kani::unwind(14)]
fn c10_fold_lemma_a_r2() {
    lemma_a(0x3000, 0xFFFF);
}
// @verif props=C10,C15 tier=quick timeout=1500 mem=12 unwind=14 c15=index,safe,index_safe,alloc bound="all c in 0x10000..=0x10FFFF" funcs="unicode::fold,FoldRange::apply,FOLDS"
#[kani::proof]
#[kani::unwind(14)]
fn c10_fold_lemma_a_r3() {
    lemma_a(0x10000, 0x10FFFF);
}
// @verif props=C10,C15 tier=quick timeout=1500 mem=12 unwind=14 c15=index,safe,index_safe,alloc bound="all c in 0..=0x7FF" funcs="unicode::fold,FoldRange::apply,FOLDS"
#[kani::proof]
#[kani::unwind(14)]
fn c10_fold_lemma_b_r0() {
    lemma_b(0, 0x7FF);
}
// @verif props=C10,C15 tier=thorough timeout=1500 mem=12 unwind=14 c15=index,safe,index_safe,alloc bound="all c in 0x800..=0x2FFF" funcs="unicode::fold,FoldRange::apply,FOLDS"
#[kani::proof]
#[kani::unwind(14)]
fn c10_fold_lemma_b_r1() {
    lemma_b(0x800, 0x2FFF);
}
// @verif props=C10,C15 tier=quick timeout=1500 mem=12 unwind=14 c15=index,safe,index_safe,alloc bound="all c in 0x3000..=0xFFFF" funcs="unicode::fold,FoldRange::apply,FOLDS"
#[kani::proof]
#[kani::unwind(14)]
fn c10_fold_lemma_b_r2() {
    lemma_b(0x3000, 0xFFFF);
}
// @verif props=C10,C15 tier=thorough timeout=1500 mem=12 unwind=14 c15=index,safe,index_safe,alloc bound="all c in 0x10000..=0x10FFFF" funcs="unicode::fold,FoldRange::apply,FOLDS"
#[kani::proof]
#[kani::unwind(14)]
fn c10_fold_lemma_b_r3() {
    lemma_b(0x10000, 0x10FFFF);
}

// Legacy (no u/v) canonicalisation: uppercase(c) must be ES Canonicalize(c) for every code point.
fn legacy_body(lo: u32, hi: u32) {
    let c = any_cp(lo, hi);
    if verif_cfg::KF_C10_LEGACY_MULTI_UPPER {
        // known finding: code points whose full upper-casing is multi-character but which have a
        // Simple_Uppercase_Mapping (U+1F80.., U+1FB3, U+1FC3, U+1FF3): excluded here, asserted by
        // the witness harness c10_kf_legacy_multi_upper.
        kani::assume(!member(&fo::MULTI_UPPER, c));
    }
    let u = uppercase(c);
    assert!(u == legacy_canon(c));
    assert!(fold_code_point(c, false) == u);
    kani::cover!(u != c, "a code point with an upper-case form");
}

// @verif props=C10,C15 tier=quick timeout=1500 mem=12 unwind=14 c15=index,safe,index_safe,alloc bound="all c in 0..=0x2FFF" funcs="unicode::uppercase,unicode::fold_code_point,FoldRange::apply,TO_UPPERCASE"
#[kani::proof]
#[kani::unwind(14)]
fn c10_legacy_upper_r0() {
    legacy_body(0, 0x2FFF);
}
// @verif props=C10,C15 tier=quick timeout=1500 mem=12 unwind=14 c15=index,safe,index_safe,alloc bound="all c in 0x3000..=0x10FFFF" funcs="unicode::uppercase,unicode::fold_code_point,FoldRange::apply,TO_UPPERCASE"
#[kani::proof]
#[kani::unwind(14)]
fn c10_legacy_upper_r1() {
    legacy_body(0x3000, 0x10FFFF);
}

// Witness of known finding C10-legacy-multi-upper: expected to FAIL while the defect exists.
// @verif props=C10 tier=quick timeout=600 kf=C10-legacy-multi-upper unwind=14 bound="c in MULTI_UPPER (102 code points)" funcs="unicode::uppercase"
#[kani::proof]
#[kani::unwind(14)]
fn c10_kf_legacy_multi_upper() {
    let c = any_cp(0, 0x10FFFF);
    kani::assume(member(&fo::MULTI_UPPER, c));
    assert!(uppercase(c) == legacy_canon(c));
}
