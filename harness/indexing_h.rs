// Kani harnesses for crate::indexing (child module: sees private items).
// C06-H1/H2: input decoders and byte matchers never leave the haystack / a char boundary and decode what
//            str::chars would; C13-H1: AsciiInput agrees with Utf8Input on ASCII bytes;
// C14-H1:    Utf16Input / Ucs2Input on arbitrary u16 (feature utf16).
#![allow(dead_code, unused_imports, unused_variables, unused_mut)]
use super::*;
use crate::cursor::{Backward, Direction, Forward};

const NMAX: usize = 3;
const BYTES: usize = 12;

struct Hay {
    h: [u32; NMAX],
    n: usize,
    buf: [u8; BYTES],
    off: [usize; NMAX + 1],
    len: usize,
}

fn any_hay(ascii_only: bool) -> Hay {
    let mut h = [0u32; NMAX];
    let n: usize = kani::any();
    kani::assume(n <= NMAX);
    let mut buf = [0u8; BYTES];
    let mut off = [0usize; NMAX + 1];
    let mut at = 0usize;
    let mut i = 0;
    while i < NMAX {
        if i < n {
            let c: u32 = kani::any();
            kani::assume(c <= 0x10FFFF && !(c >= 0xD800 && c <= 0xDFFF));
            if ascii_only {
                kani::assume(c < 0x80);
            }
            h[i] = c;
            if c < 0x80 {
                buf[at] = c as u8;
                at += 1;
            } else if c < 0x800 {
                buf[at] = 0xC0 | (c >> 6) as u8;
                buf[at + 1] = 0x80 | (c & 0x3F) as u8;
                at += 2;
            } else if c < 0x10000 {
                buf[at] = 0xE0 | (c >> 12) as u8;
                buf[at + 1] = 0x80 | ((c >> 6) & 0x3F) as u8;
                buf[at + 2] = 0x80 | (c & 0x3F) as u8;
                at += 3;
            } else {
                buf[at] = 0xF0 | (c >> 18) as u8;
                buf[at + 1] = 0x80 | ((c >> 12) & 0x3F) as u8;
                buf[at + 2] = 0x80 | ((c >> 6) & 0x3F) as u8;
                buf[at + 3] = 0x80 | (c & 0x3F) as u8;
                at += 4;
            }
        }
        off[i + 1] = at;
        i += 1;
    }
    Hay { h, n, buf, off, len: at }
}

fn pos_at<I: InputIndexer>(input: &I, off: usize) -> I::Position {
    let p = input.try_move_right(input.left_end(), off);
    assert!(p.is_some());
    p.unwrap()
}

// ------------------------------------------------------------------------------------------
// Utf8Input: every primitive, from every boundary position
// ------------------------------------------------------------------------------------------

// @verif props=C06,C15 tier=quick timeout=1200 unwind=5 c15q=all bound="haystack <= 3 symbolic scalar values (all UTF-8 widths), every boundary position" funcs="Utf8Input::next_right,next_right_pos,peek_right,peek_byte_right,pos_to_offset,try_move_right,getb"
#[kani::proof]
#[kani::unwind(5)]
fn c06_utf8_forward() {
    let hy = any_hay(false);
    let text: &str = unsafe { core::str::from_utf8_unchecked(&hy.buf[..hy.len]) };
    let input = Utf8Input::new(text, kani::any());
    let i: usize = kani::any();
    kani::assume(i <= hy.n);
    let start = pos_at(&input, hy.off[i]);
    assert!(input.pos_to_offset(start) == hy.off[i]);
    let mut p = start;
    let got = input.next_right(&mut p);
    let p2 = input.next_right_pos(start);
    let pk = input.peek_right(start);
    let pb = input.peek_byte_right(start);
    if i == hy.n {
        assert!(got.is_none() && p2.is_none() && pk.is_none() && pb.is_none());
        assert!(p == start);
    } else {
        assert!(got.is_some());
        assert!(got.unwrap() as u32 == hy.h[i]);
        assert!(input.pos_to_offset(p) == hy.off[i + 1]);
        assert!(p2.is_some() && input.pos_to_offset(p2.unwrap()) == hy.off[i + 1]);
        assert!(pk == got);
        assert!(pb == Some(hy.buf[hy.off[i]]));
    }
    // try_move_right: Some exactly when it stays inside
    let amt: usize = kani::any();
    let mv = input.try_move_right(start, amt);
    if amt <= hy.len - hy.off[i] {
        assert!(mv.is_some() && input.pos_to_offset(mv.unwrap()) == hy.off[i] + amt);
    } else {
        assert!(mv.is_none());
    }
    kani::cover!(i < hy.n && hy.h[i] >= 0x10000, "four byte sequence decoded");
    kani::cover!(i < hy.n && hy.h[i] >= 0x800 && hy.h[i] < 0x10000, "three byte sequence decoded");
    kani::cover!(i < hy.n && hy.h[i] >= 0x80 && hy.h[i] < 0x800, "two byte sequence decoded");
    kani::cover!(i == hy.n, "at right end");
}

// @verif props=C06,C15 tier=quick timeout=1200 unwind=5 c15q=all bound="haystack <= 3 symbolic scalar values (all UTF-8 widths), every boundary position" funcs="Utf8Input::next_left,next_left_pos,peek_left,peek_byte_left,try_move_left"
#[kani::proof]
#[kani::unwind(5)]
fn c06_utf8_backward() {
    let hy = any_hay(false);
    let text: &str = unsafe { core::str::from_utf8_unchecked(&hy.buf[..hy.len]) };
    let input = Utf8Input::new(text, kani::any());
    let i: usize = kani::any();
    kani::assume(i <= hy.n);
    let start = pos_at(&input, hy.off[i]);
    let mut p = start;
    let got = input.next_left(&mut p);
    let p2 = input.next_left_pos(start);
    let pk = input.peek_left(start);
    let pb = input.peek_byte_left(start);
    if i == 0 {
        assert!(got.is_none() && p2.is_none() && pk.is_none() && pb.is_none());
        assert!(p == start);
    } else {
        assert!(got.is_some());
        assert!(got.unwrap() as u32 == hy.h[i - 1]);
        assert!(input.pos_to_offset(p) == hy.off[i - 1]);
        assert!(p2.is_some() && input.pos_to_offset(p2.unwrap()) == hy.off[i - 1]);
        assert!(pk == got);
        assert!(pb == Some(hy.buf[hy.off[i] - 1]));
    }
    let amt: usize = kani::any();
    let mv = input.try_move_left(start, amt);
    if amt <= hy.off[i] {
        assert!(mv.is_some() && input.pos_to_offset(mv.unwrap()) == hy.off[i] - amt);
    } else {
        assert!(mv.is_none());
    }
    kani::cover!(i > 0 && hy.h[i - 1] >= 0x10000, "four byte sequence decoded backwards");
    kani::cover!(i > 0 && hy.h[i - 1] >= 0x800 && hy.h[i - 1] < 0x10000, "three byte sequence decoded backwards");
    kani::cover!(i > 0 && hy.h[i - 1] >= 0x80 && hy.h[i - 1] < 0x800, "two byte sequence decoded backwards");
    kani::cover!(i == 0, "at left end");
}

// subinput / subrange_eq (the backreference primitive), both directions.
// @verif props=C06,C15 tier=quick timeout=1500 unwind=14 c15q=all bound="haystack <= 3 symbolic scalars; captured range i..j and position k on boundaries" funcs="Utf8Input::subrange_eq,subinput,str_slice,slice"
#[kani::proof]
#[kani::unwind(14)]
fn c06_utf8_subrange_eq() {
    let hy = any_hay(false);
    let text: &str = unsafe { core::str::from_utf8_unchecked(&hy.buf[..hy.len]) };
    let input = Utf8Input::new(text, false);
    let i: usize = kani::any();
    let j: usize = kani::any();
    let k: usize = kani::any();
    kani::assume(i <= j && j <= hy.n && k <= hy.n);
    let (pi, pj, pk) = (pos_at(&input, hy.off[i]), pos_at(&input, hy.off[j]), pos_at(&input, hy.off[k]));
    let blen = hy.off[j] - hy.off[i];
    let fwd: bool = kani::any();
    let mut p = pk;
    let r = if fwd {
        input.subrange_eq(Forward::new(), &mut p, pi..pj)
    } else {
        input.subrange_eq(Backward::new(), &mut p, pi..pj)
    };
    // model: byte-wise comparison inside the haystack
    let fits = if fwd { hy.off[k] + blen <= hy.len } else { blen <= hy.off[k] };
    let mut same = fits;
    if fits {
        let base = if fwd { hy.off[k] } else { hy.off[k] - blen };
        let mut t = 0;
        while t < blen {
            if hy.buf[hy.off[i] + t] != hy.buf[base + t] {
                same = false;
            }
            t += 1;
        }
    }
    assert!(r == same);
    if r {
        let want = if fwd { hy.off[k] + blen } else { hy.off[k] - blen };
        assert!(input.pos_to_offset(p) == want);
    }
    let sub = input.subinput(pi..pj);
    assert!(sub.right_end() - sub.left_end() == blen);
    kani::cover!(r && blen >= 2, "non-trivial equal ranges");
    kani::cover!(!r && fits, "unequal ranges");
    kani::cover!(!fits, "range does not fit");
}

fn match_bytes_body<const N: usize>() {
    let hy = any_hay(false);
    let text: &str = unsafe { core::str::from_utf8_unchecked(&hy.buf[..hy.len]) };
    let input = Utf8Input::new(text, false);
    let k: usize = kani::any();
    kani::assume(k <= hy.n);
    let pk = pos_at(&input, hy.off[k]);
    let lit: [u8; N] = kani::any();
    let fwd: bool = kani::any();
    let mut p = pk;
    let r = if fwd {
        input.match_bytes(Forward::new(), &mut p, &lit)
    } else {
        input.match_bytes(Backward::new(), &mut p, &lit)
    };
    let fits = if fwd { hy.off[k] + N <= hy.len } else { N <= hy.off[k] };
    let mut same = fits;
    if fits {
        let base = if fwd { hy.off[k] } else { hy.off[k] - N };
        let mut t = 0;
        while t < N {
            if lit[t] != hy.buf[base + t] {
                same = false;
            }
            t += 1;
        }
    }
    assert!(r == same);
    if r {
        let want = if fwd { hy.off[k] + N } else { hy.off[k] - N };
        assert!(input.pos_to_offset(p) == want);
    }
    kani::cover!(r, "literal matched");
    kani::cover!(!r && fits, "literal mismatched");
}

// @verif props=C06,C15 tier=quick timeout=900 unwind=8 c15q=all bound="literal of 1 symbolic byte, haystack <= 3 symbolic scalars, both directions" funcs="Utf8Input::match_bytes"
#[kani::proof]
#[kani::unwind(8)]
fn c06_utf8_match_bytes_1() {
    match_bytes_body::<1>();
}
// @verif props=C06,C15 tier=quick timeout=900 unwind=8 c15q=all bound="literal of 3 symbolic bytes, haystack <= 3 symbolic scalars, both directions" funcs="Utf8Input::match_bytes"
#[kani::proof]
#[kani::unwind(8)]
fn c06_utf8_match_bytes_3() {
    match_bytes_body::<3>();
}
// @verif props=C06 tier=thorough timeout=1500 unwind=10 bound="literal of 4 symbolic bytes, haystack <= 3 symbolic scalars, both directions" funcs="Utf8Input::match_bytes"
#[kani::proof]
#[kani::unwind(10)]
fn c06_utf8_match_bytes_4() {
    match_bytes_body::<4>();
}
// @verif props=C06 tier=extended timeout=1500 unwind=20 bound="literal of 16 symbolic bytes (longer than any haystack in bound: must fail without reading outside)" funcs="Utf8Input::match_bytes"
#[kani::proof]
#[kani::unwind(20)]
fn c06_utf8_match_bytes_16() {
    match_bytes_body::<16>();
}

// ------------------------------------------------------------------------------------------
// AsciiInput vs Utf8Input on ASCII bytes (C13-H1), and AsciiInput's own safety (C06)
// ------------------------------------------------------------------------------------------

// @verif props=C13,C06,C15 tier=quick timeout=1200 unwind=6 c15q=all bound="haystack <= 3 symbolic ASCII bytes, every position" funcs="AsciiInput::next_right,next_left,next_right_pos,next_left_pos,peek_byte_right,peek_byte_left,pos_to_offset;Utf8Input::same"
#[kani::proof]
#[kani::unwind(6)]
fn c13_ascii_vs_utf8_primitives() {
    let hy = any_hay(true);
    let text: &str = unsafe { core::str::from_utf8_unchecked(&hy.buf[..hy.len]) };
    let uni: bool = kani::any();
    let a = AsciiInput::new(text, uni);
    let u = Utf8Input::new(text, uni);
    let i: usize = kani::any();
    kani::assume(i <= hy.n);
    let (pa, pu) = (pos_at(&a, i), pos_at(&u, i));
    // forward
    let (mut qa, mut qu) = (pa, pu);
    let (ea, eu) = (a.next_right(&mut qa), u.next_right(&mut qu));
    assert!(ea.map(|c| c as u32) == eu.map(|c| c as u32));
    assert!(a.pos_to_offset(qa) == u.pos_to_offset(qu));
    assert!(a.next_right_pos(pa).map(|p| a.pos_to_offset(p)) == u.next_right_pos(pu).map(|p| u.pos_to_offset(p)));
    assert!(a.peek_byte_right(pa) == u.peek_byte_right(pu));
    // backward
    let (mut qa, mut qu) = (pa, pu);
    let (ea, eu) = (a.next_left(&mut qa), u.next_left(&mut qu));
    assert!(ea.map(|c| c as u32) == eu.map(|c| c as u32));
    assert!(a.pos_to_offset(qa) == u.pos_to_offset(qu));
    assert!(a.next_left_pos(pa).map(|p| a.pos_to_offset(p)) == u.next_left_pos(pu).map(|p| u.pos_to_offset(p)));
    assert!(a.peek_byte_left(pa) == u.peek_byte_left(pu));
    kani::cover!(i > 0 && i < hy.n, "interior position");
}

// Case folding relation: ASCII fold agrees with the UTF-8 fold on ASCII (C13-H2).
// @verif props=C13,C10 tier=quick timeout=900 unwind=10 bound="all pairs of ASCII bytes, both unicode settings" funcs="AsciiInput::fold_equals,ASCIICharProperties::fold,Utf8Input::fold_equals,UTF8CharProperties::fold,unicode::fold_code_point"
#[kani::proof]
#[kani::unwind(10)]
fn c13_ascii_fold_relation() {
    let x: u8 = kani::any();
    let y: u8 = kani::any();
    kani::assume(x < 0x80 && y < 0x80);
    let uni: bool = kani::any();
    let a = AsciiInput::new("", uni);
    let u = Utf8Input::new("", uni);
    let ra = a.fold_equals(x, y);
    let ru = u.fold_equals(x as char, y as char);
    assert!(ra == ru);
    // and both are "equal up to ASCII letter case"
    let lx = if x >= b'A' && x <= b'Z' { x + 32 } else { x };
    let ly = if y >= b'A' && y <= b'Z' { y + 32 } else { y };
    assert!(ra == (lx == ly));
    kani::cover!(ra && x != y, "a case pair");
}

// ------------------------------------------------------------------------------------------
// C14-H1: Utf16Input / Ucs2Input on ARBITRARY u16 input (feature utf16)
// ------------------------------------------------------------------------------------------
#[cfg(feature = "utf16")]
mod u16h {
    use super::super::*;
    use crate::cursor::{Backward, Direction, Forward};

    fn is_high(u: u16) -> bool {
        u >= 0xD800 && u <= 0xDBFF
    }
    fn is_low(u: u16) -> bool {
        u >= 0xDC00 && u <= 0xDFFF
    }

    // @verif props=C14,C06 tier=quick builds=utf16 sub=u16h timeout=1800 unwind=6 bound="any 3 u16 code units (lone surrogates included), slice length 0..=3, every position" funcs="Utf16Input::next_right,next_left,next_right_pos,next_left_pos,peek_right,peek_left,pos_to_offset,try_move_right"
    #[kani::proof]
    #[kani::unwind(6)]
    fn c14_utf16_primitives() {
        let data: [u16; 3] = kani::any();
        let len: usize = kani::any();
        kani::assume(len <= 3);
        let s = &data[..len];
        let input = Utf16Input::new(s, kani::any());
        let i: usize = kani::any();
        kani::assume(i <= len);
        let start = input.try_move_right(input.left_end(), i).unwrap();
        // forward
        let mut p = start;
        let got = input.next_right(&mut p);
        let np = input.next_right_pos(start);
        if i == len {
            assert!(got.is_none() && np.is_none() && p == start);
        } else {
            let paired = is_high(s[i]) && i + 1 < len && is_low(s[i + 1]);
            let want = if paired {
                0x10000 + ((((s[i] & 0x3FF) as u32) << 10) | (s[i + 1] & 0x3FF) as u32)
            } else {
                s[i] as u32
            };
            assert!(got == Some(want));
            assert!(input.pos_to_offset(p) == i + if paired { 2 } else { 1 });
            assert!(np == Some(p));
            kani::cover!(paired, "a surrogate pair");
            kani::cover!(is_high(s[i]) && !paired, "a lone high surrogate");
        }
        // backward
        let mut q = start;
        let gotl = input.next_left(&mut q);
        let nq = input.next_left_pos(start);
        if i == 0 {
            assert!(gotl.is_none() && nq.is_none() && q == start);
        } else {
            let paired = is_low(s[i - 1]) && i >= 2 && is_high(s[i - 2]);
            let want = if paired {
                0x10000 + ((((s[i - 2] & 0x3FF) as u32) << 10) | (s[i - 1] & 0x3FF) as u32)
            } else {
                s[i - 1] as u32
            };
            assert!(gotl == Some(want));
            assert!(input.pos_to_offset(q) == i - if paired { 2 } else { 1 });
            assert!(nq == Some(q));
        }
        // round trip on a pair boundary: forward then backward returns to the start with the same element
        if let Some(c) = got {
            let mut back = p;
            let again = input.next_left(&mut back);
            // (a low surrogate that follows a high one pairs backwards even if we came from between them)
            if !(i > 0 && is_high(s[i - 1]) && is_low(s[i])) {
                assert!(again == Some(c) && back == start);
            }
        }
    }

    // @verif props=C14,C06 tier=quick builds=utf16 sub=u16h timeout=1800 unwind=6 bound="any 3 u16 code units, every position; Ucs2Input never pairs" funcs="Ucs2Input::next_right,next_left,next_right_pos,next_left_pos"
    #[kani::proof]
    #[kani::unwind(6)]
    fn c14_ucs2_primitives() {
        let data: [u16; 3] = kani::any();
        let len: usize = kani::any();
        kani::assume(len <= 3);
        let s = &data[..len];
        let input = Ucs2Input::new(s, kani::any());
        let i: usize = kani::any();
        kani::assume(i <= len);
        let start = input.try_move_right(input.left_end(), i).unwrap();
        let mut p = start;
        let got = input.next_right(&mut p);
        if i == len {
            assert!(got.is_none() && p == start && input.next_right_pos(start).is_none());
        } else {
            assert!(got == Some(s[i] as u32) && input.pos_to_offset(p) == i + 1);
            assert!(input.next_right_pos(start) == Some(p));
        }
        let mut q = start;
        let gotl = input.next_left(&mut q);
        if i == 0 {
            assert!(gotl.is_none() && q == start && input.next_left_pos(start).is_none());
        } else {
            assert!(gotl == Some(s[i - 1] as u32) && input.pos_to_offset(q) == i - 1);
            assert!(input.next_left_pos(start) == Some(q));
        }
        kani::cover!(i > 0 && i < len, "interior position");
    }

    // subrange_eq (backreferences) on u16 input
    // @verif props=C14,C06 tier=quick builds=utf16 sub=u16h timeout=1800 unwind=12 bound="any 4 u16 code units; captured range i..j and position k anywhere; both directions" funcs="Utf16Input::subrange_eq,subinput"
    #[kani::proof]
    #[kani::unwind(12)]
    fn c14_utf16_subrange_eq() {
        let data: [u16; 4] = kani::any();
        let input = Utf16Input::new(&data, false);
        let (i, j, k): (usize, usize, usize) = (kani::any(), kani::any(), kani::any());
        kani::assume(i <= j && j <= 4 && k <= 4);
        let le = input.left_end();
        let (pi, pj, pk) = (
            input.try_move_right(le, i).unwrap(),
            input.try_move_right(le, j).unwrap(),
            input.try_move_right(le, k).unwrap(),
        );
        let n = j - i;
        let fwd: bool = kani::any();
        let mut p = pk;
        let r = if fwd {
            input.subrange_eq(Forward::new(), &mut p, pi..pj)
        } else {
            input.subrange_eq(Backward::new(), &mut p, pi..pj)
        };
        let fits = if fwd { k + n <= 4 } else { n <= k };
        let mut same = fits;
        if fits {
            let base = if fwd { k } else { k - n };
            let mut t = 0;
            while t < n {
                if data[i + t] != data[base + t] {
                    same = false;
                }
                t += 1;
            }
        }
        assert!(r == same);
        if r {
            assert!(input.pos_to_offset(p) == if fwd { k + n } else { k - n });
        }
        kani::cover!(r && n >= 2, "equal ranges of length >= 2");
    }
}
