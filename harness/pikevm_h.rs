// Kani harnesses for crate::pikevm (child module: sees private items).
// C02-H2: PikeVM's loop decision equals the same RepeatMatcher step the backtracker is checked against
//         (classicalbacktrack_h.rs c01_run_loop_step), in PikeVM's "completed iterations" convention;
// C02:    Loop1CharBody step; C09: iteration through PikeVMExecutor over an arbitrary engine.
#![allow(dead_code, unused_imports, unused_variables, unused_mut)]
use super::*;
use crate::api::Flags;
use crate::types::BracketContents;

fn flags0() -> Flags {
    Flags { icase: false, multiline: false, dot_all: false, no_opt: false, unicode: false, unicode_sets: false }
}

/// The same with StartPredicate::StartAnchored.
fn prog_anchored(insns: Vec<Insn>, loops: u32, groups: u32) -> CompiledRegex {
    CompiledRegex {
        insns,
        brackets: Vec::new(),
        start_pred: StartPredicate::StartAnchored,
        loops,
        groups,
        group_names: Vec::new().into_boxed_slice(),
        flags: flags0(),
    }
}

fn prog(insns: Vec<Insn>, loops: u32, groups: u32) -> CompiledRegex {
    CompiledRegex {
        insns,
        brackets: Vec::new(),
        start_pred: StartPredicate::Arbitrary,
        loops,
        groups,
        group_names: Vec::new().into_boxed_slice(),
        flags: flags0(),
    }
}

fn pos_at<I: InputIndexer>(input: &I, off: usize) -> I::Position {
    let p = input.try_move_right(input.left_end(), off);
    assert!(p.is_some());
    p.unwrap()
}

// @verif props=C02,C01 tier=quick timeout=1500 unwind=6 bound="k (completed iterations), min<=max: any usize; entry,pos: any position of a 3-byte haystack; greedy/lazy; initial entry and re-entry" funcs="pikevm::run_loop"
// @verif assumes="min<=max; completed iterations < max when the body was entered again"
#[kani::proof]
#[kani::unwind(6)]
fn c02_pikevm_run_loop_step() {
    let text = "abc";
    let input = Utf8Input::new(text, false);
    let min: usize = kani::any();
    let max: usize = kani::any();
    kani::assume(min <= max);
    let greedy: bool = kani::any();
    let exit: u32 = kani::any();
    kani::assume(exit >= 2 && exit < 1000);
    let lf = LoopFields { loop_id: 0, min_iters: min, max_iters: max, greedy, exit };
    let initial: bool = kani::any();
    // k = iterations completed when the decision is taken (0 on initial entry)
    let k: usize = kani::any();
    kani::assume(if initial { k == 0 } else { k >= 1 && k <= max });
    let stale: usize = kani::any();
    let e_off: usize = kani::any();
    let p_off: usize = kani::any();
    kani::assume(e_off <= 3 && p_off <= 3);
    let entry = pos_at(&input, e_off);
    let pos = pos_at(&input, p_off);
    let mut s = State {
        pos,
        ip: 0,
        loop1_iters: 0,
        loops: vec![LoopData { iters: if initial { stale } else { k - 1 }, entry }].into(),
        groups: Vec::new().into(),
    };
    let r = run_loop(&mut s, &lf, initial);
    // ---- the same specification as the backtracker's c01_run_loop_step, with iters := k ----
    let empty_fail = !initial && entry == pos && k > min;
    let can_enter = k < max;
    let can_leave = k >= min;
    match r {
        StateMatch::Fail => {
            assert!(empty_fail || (!can_enter && !can_leave));
        }
        StateMatch::Continue => {
            assert!(!empty_fail);
            assert!(can_enter != can_leave);
            if can_enter {
                assert!(s.ip == 1 && s.loops[0].iters == k && s.loops[0].entry == pos && s.pos == pos);
            } else {
                assert!(s.ip == exit as usize && s.pos == pos);
            }
        }
        StateMatch::Split(first) => {
            assert!(!empty_fail && can_enter && can_leave);
            // `first` is explored first (pushed last), `s` is the alternative
            if greedy {
                assert!(first.ip == 1 && s.ip == exit as usize);
            } else {
                assert!(first.ip == exit as usize && s.ip == 1);
            }
            assert!(first.pos == pos && s.pos == pos);
            assert!(first.loops[0].iters == k && first.loops[0].entry == pos);
            assert!(s.loops[0].iters == k && s.loops[0].entry == pos);
            core::mem::forget(first);
        }
        StateMatch::Complete => assert!(false),
    }
    kani::cover!(empty_fail, "empty iteration rejected");
    kani::cover!(!empty_fail && can_enter && can_leave && greedy, "greedy split");
    kani::cover!(!empty_fail && can_enter && can_leave && !greedy, "lazy split");
    kani::cover!(initial && min == 0 && max == 0, "x{0} on entry");
    core::mem::forget(s);
}

const NMAX: usize = 3;
const BYTES: usize = 12;

struct HayN<const N: usize, const B: usize> {
    h: [u32; N],
    n: usize,
    buf: [u8; B],
    off: [usize; 4],
    len: usize,
}
type Hay = HayN<NMAX, BYTES>;

fn any_hay(ascii_only: bool) -> Hay {
    any_hay_n::<NMAX, BYTES>(ascii_only)
}

fn any_hay_n<const N: usize, const B: usize>(ascii_only: bool) -> HayN<N, B> {
    let mut h = [0u32; N];
    let n: usize = kani::any();
    kani::assume(n <= N);
    let mut buf = [0u8; B];
    let mut off = [0usize; 4];
    let mut at = 0usize;
    let mut i = 0;
    while i < N {
        if i < n {
            let c: u32 = kani::any();
            kani::assume(c <= 0x10FFFF && !(c >= 0xD800 && c <= 0xDFFF));
            if ascii_only {
                kani::assume(c < 0x80);
            }
            h[i] = c;
            if c < 0x80 {
                buf[at] = c as u8;
                at += 1;
            } else if c < 0x800 {
                buf[at] = 0xC0 | (c >> 6) as u8;
                buf[at + 1] = 0x80 | (c & 0x3F) as u8;
                at += 2;
            } else if c < 0x10000 {
                buf[at] = 0xE0 | (c >> 12) as u8;
                buf[at + 1] = 0x80 | ((c >> 6) & 0x3F) as u8;
                buf[at + 2] = 0x80 | (c & 0x3F) as u8;
                at += 3;
            } else {
                buf[at] = 0xF0 | (c >> 18) as u8;
                buf[at + 1] = 0x80 | ((c >> 12) & 0x3F) as u8;
                buf[at + 2] = 0x80 | ((c >> 6) & 0x3F) as u8;
                buf[at + 3] = 0x80 | (c & 0x3F) as u8;
                at += 4;
            }
        }
        off[i + 1] = at;
        i += 1;
    }
    HayN { h, n, buf, off, len: at }
}


// Loop1CharBody: one step of the PikeVM's one-character loop from an arbitrary iteration count.
// @verif props=C02,C01 tier=quick timeout=2400 unwind=7 bound="Loop1CharBody{min<=max<=4} over Char(c); loop1_iters <= max; haystack <= 3 symbolic scalars; both directions" funcs="pikevm::try_match_state(Loop1CharBody,Char)"
#[kani::proof]
#[kani::unwind(7)]
fn c02_pikevm_loop1char_step() {
    let hy = any_hay(false);
    let text: &str = unsafe { core::str::from_utf8_unchecked(&hy.buf[..hy.len]) };
    let input = Utf8Input::new(text, false);
    let min: usize = kani::any();
    let max: usize = kani::any();
    kani::assume(min <= max && max <= 4);
    let greedy: bool = kani::any();
    let c: u32 = kani::any();
    kani::assume(c <= 0x10FFFF);
    let cr = prog(vec![Insn::Loop1CharBody { min_iters: min, max_iters: max, greedy }, Insn::Char(c), Insn::Goal], 0, 0);
    let t: usize = kani::any();
    kani::assume(t <= max);
    let i: usize = kani::any();
    kani::assume(i <= hy.n);
    let fwd: bool = kani::any();
    let pos = pos_at(&input, hy.off[i]);
    let mut s = State { pos, ip: 0, loop1_iters: t, loops: Vec::new().into(), groups: Vec::new().into() };
    let r = if fwd {
        try_match_state(&cr, &input, &mut s, Forward::new())
    } else {
        try_match_state(&cr, &input, &mut s, Backward::new())
    };
    let body_ok = if fwd { i < hy.n && hy.h[if i < hy.n { i } else { 0 }] == c } else { i > 0 && hy.h[if i > 0 { i - 1 } else { 0 }] == c };
    let can_iter = t < max && body_ok;
    let can_exit = t >= min;
    let next_off = if fwd { hy.off[if i < hy.n { i + 1 } else { i }] } else { hy.off[if i > 0 { i - 1 } else { 0 }] };
    match r {
        StateMatch::Fail => assert!(!can_iter && !can_exit),
        StateMatch::Continue => {
            assert!(can_iter != can_exit);
            if can_iter {
                assert!(s.ip == 0 && s.loop1_iters == t + 1 && input.pos_to_offset(s.pos) == next_off);
            } else {
                assert!(s.ip == 2 && s.loop1_iters == 0 && s.pos == pos);
            }
        }
        StateMatch::Split(first) => {
            assert!(can_iter && can_exit);
            let (it, ex) = if greedy { (&first, &s) } else { (&s, &first) };
            assert!(it.ip == 0 && it.loop1_iters == t + 1 && input.pos_to_offset(it.pos) == next_off);
            assert!(ex.ip == 2 && ex.loop1_iters == 0 && ex.pos == pos);
            core::mem::forget(first);
        }
        StateMatch::Complete => assert!(false),
    }
    kani::cover!(can_iter && can_exit && greedy, "greedy split");
    kani::cover!(can_iter && can_exit && !greedy, "lazy split");
    kani::cover!(!can_iter && !can_exit, "dead end");
    core::mem::forget(s);
    core::mem::forget(cr);
}

// ------------------------------------------------------------------------------------------
// C09 through the PikeVM executor over an arbitrary deterministic engine
// ------------------------------------------------------------------------------------------

use crate::verif_oracle as vo;

fn stub_pike_try_at_pos<'a: 'a, Input: InputIndexer, Dir: Direction>(
    _this: &mut MatchAttempter<'a, Input>,
    inp: Input,
    init_state: &mut State<Input::Position>,
    _dir: Dir,
) -> bool {
    if init_state.ip != 0 {
        unsafe {
            vo::mark_bad();
        }
    }
    match vo::lookup(&inp, init_state.pos) {
        Some(p) => {
            init_state.pos = p;
            true
        }
        None => false,
    }
}

fn is_boundary<const N: usize, const B: usize>(hy: &HayN<N, B>, o: usize) -> bool {
    let mut i = 0;
    let mut r = false;
    while i <= N {
        if i <= hy.n && hy.off[i] == o {
            r = true;
        }
        i += 1;
    }
    r
}

/// Fill the oracle table with arbitrary ends: for each boundary offset o, None or Some(e) with
/// o <= e <= len and e on a boundary.  Non-boundary offsets are never queried by correct code; they
/// hold a poison value that makes the harness fail if used.
fn any_oracle<const N: usize, const B: usize>(hy: &HayN<N, B>, only_at_zero: bool) {
    // every entry starts as poison (static initialiser); only boundary offsets get a real (arbitrary) answer
    let mut i = 0;
    while i <= N {
        if i <= hy.n {
            let o = hy.off[i];
            let v: Option<usize> = if kani::any() && !(only_at_zero && o != 0) {
                let j: usize = kani::any();
                kani::assume(j >= i && j <= hy.n);
                Some(hy.off[j])
            } else {
                None
            };
            unsafe {
                vo::VERIF_ORACLE_END[o] = v;
            }
        }
        i += 1;
    }
    unsafe {
        vo::set_haylen(hy.len);
        vo::reset_calls();
        vo::set_active();
    }
}

/// Reference: first match at or after cursor (boundary order).
fn model_first<const N: usize, const B: usize>(hy: &HayN<N, B>, cursor: usize, anchored: bool) -> Option<(usize, usize)> {
    let mut i = 0;
    let mut res = None;
    while i <= N {
        if res.is_none() && i <= hy.n && hy.off[i] >= cursor {
            let o = hy.off[i];
            if !anchored || o == cursor {
                if let Some(e) = unsafe { vo::VERIF_ORACLE_END[o] } {
                    res = Some((o, e));
                }
            }
        }
        i += 1;
    }
    res
}

fn next_boundary_after<const N: usize, const B: usize>(hy: &HayN<N, B>, o: usize) -> Option<usize> {
    let mut i = 0;
    let mut res = None;
    while i <= N {
        if res.is_none() && i <= hy.n && hy.off[i] > o {
            res = Some(hy.off[i]);
        }
        i += 1;
    }
    res
}

macro_rules! c09_body {
    ($exec:ty, $cr:expr, $anchored:expr, $ascii:expr, $n:expr) => {{
    let anchored: bool = $anchored;
    let hy = any_hay_n::<{ $n }, { 4 * $n }>($ascii);
    let text: &str = unsafe { core::str::from_utf8_unchecked(&hy.buf[..hy.len]) };
    any_oracle(&hy, anchored);
    let start: usize = kani::any();
    // API precondition of find_from: start beyond the end, or on a char boundary
    kani::assume(start > hy.len || is_boundary(&hy, start));
    kani::assume(start <= BYTES + 3);
    let mut it = exec::Matches::new(<$exec as exec::Executor>::new($cr, text), start);
    let mut cursor: Option<usize> = if start <= hy.len { Some(start) } else { None };
    let mut last_end: usize = 0;
    let mut count = 0usize;
    let mut done = false;
    let mut step = 0;
    while step < $n + 3 {
        let got = it.next();
        let want = match cursor {
            None => None,
            Some(c) => model_first(&hy, c, anchored),
        };
        match want {
            None => {
                assert!(got.is_none(), "iterator yields a match the lastIndex model does not");
                done = true;
                if !anchored {
                    cursor = None;
                }
            }
            Some((s, e)) => {
                assert!(!done, "a match after None");
                assert!(got.is_some(), "iterator misses a match of the lastIndex model");
                let m = got.unwrap();
                assert!(m.range.start == s && m.range.end == e);
                assert!(s >= last_end, "matches overlap or go backwards");
                last_end = e;
                count += 1;
                cursor = if e != s { Some(e) } else { next_boundary_after(&hy, e) };
                core::mem::forget(m);
            }
        }
        step += 1;
    }
    assert!(done, "iteration must be exhausted after at most chars+1 matches");
    assert!(count <= hy.n + 1);
    assert!(vo::calls_ok(), "every attempt sees the whole haystack from instruction 0 with a clean stack");
    kani::cover!(anchored || count >= 2, "at least two matches (unanchored)");
    kani::cover!(anchored || (count == hy.n + 1 && hy.n >= 1), "an empty match at every position (unanchored)");
    kani::cover!(!anchored || count == 1, "the anchored match");
    kani::cover!(start > hy.len, "start beyond the end");
    core::mem::forget(it);
    }};
}


// @verif props=C09,C02 tier=extended timeout=5400 mem=16 unwind=7 bound="haystack <= 1 symbolic scalars, arbitrary engine table, symbolic start, up to 4 next() calls; PikeVMExecutor" funcs="PikeVMExecutor::initial_position,next_match,pikevm::successful_match,exec::Matches::next"
// @verif stubs="pikevm::MatchAttempter::try_at_pos -> arbitrary deterministic table END[offset]"
#[kani::proof]
#[kani::unwind(7)]
#[kani::stub(crate::pikevm::MatchAttempter::try_at_pos, stub_pike_try_at_pos)]
fn c09_iter_pikevm_utf8() {
    let cr = prog(vec![Insn::Goal], 0, 0);
    c09_body!(PikeVMExecutor<Utf8Input>, &cr, false, false, 1);
    core::mem::forget(cr);
}

// @verif props=C09,C02 tier=extended timeout=5400 mem=16 unwind=8 bound="haystack <= 2 symbolic scalars, arbitrary engine table, symbolic start, up to 5 next() calls; PikeVMExecutor" funcs="PikeVMExecutor::initial_position,next_match,pikevm::successful_match,exec::Matches::next"
// @verif stubs="pikevm::MatchAttempter::try_at_pos -> arbitrary deterministic table END[offset]"
#[kani::proof]
#[kani::unwind(8)]
#[kani::stub(crate::pikevm::MatchAttempter::try_at_pos, stub_pike_try_at_pos)]
fn c09_iter_pikevm_utf8_n2() {
    let cr = prog(vec![Insn::Goal], 0, 0);
    c09_body!(PikeVMExecutor<Utf8Input>, &cr, false, false, 2);
    core::mem::forget(cr);
}

// @verif props=C09,C02 tier=quick timeout=2400 mem=16 unwind=7 bound="as c09_iter_pikevm_utf8 with StartPredicate::StartAnchored (engine can only match at 0)" funcs="PikeVMExecutor::next_match (anchored branch)"
// @verif stubs="pikevm::MatchAttempter::try_at_pos -> table"
#[kani::proof]
#[kani::unwind(7)]
#[kani::stub(crate::pikevm::MatchAttempter::try_at_pos, stub_pike_try_at_pos)]
fn c09_iter_pikevm_anchored() {
    let cr = prog_anchored(vec![Insn::Goal], 0, 0);
    c09_body!(PikeVMExecutor<Utf8Input>, &cr, true, false, 1);
    core::mem::forget(cr);
}

// @verif props=C09,C02 tier=extended timeout=5400 mem=16 unwind=8 bound="as c09_iter_pikevm_utf8 with StartPredicate::StartAnchored (engine can only match at 0)" funcs="PikeVMExecutor::next_match (anchored branch)"
// @verif stubs="pikevm::MatchAttempter::try_at_pos -> table"
#[kani::proof]
#[kani::unwind(8)]
#[kani::stub(crate::pikevm::MatchAttempter::try_at_pos, stub_pike_try_at_pos)]
fn c09_iter_pikevm_anchored_n2() {
    let cr = prog_anchored(vec![Insn::Goal], 0, 0);
    c09_body!(PikeVMExecutor<Utf8Input>, &cr, true, false, 2);
    core::mem::forget(cr);
}

// ---- thorough variants: haystacks of up to 3 characters ----
// @verif props=C09,C02 tier=extended timeout=5400 mem=20 unwind=9 bound="haystack <= 3 symbolic scalars, arbitrary engine table, symbolic start, up to 6 next() calls; PikeVMExecutor" funcs="PikeVMExecutor::initial_position,next_match,pikevm::successful_match,exec::Matches::next"
// @verif stubs="pikevm::MatchAttempter::try_at_pos -> arbitrary deterministic table END[offset]"
#[kani::proof]
#[kani::unwind(9)]
#[kani::stub(crate::pikevm::MatchAttempter::try_at_pos, stub_pike_try_at_pos)]
fn c09_iter_pikevm_utf8_n3() {
    let cr = prog(vec![Insn::Goal], 0, 0);
    c09_body!(PikeVMExecutor<Utf8Input>, &cr, false, false, 3);
    core::mem::forget(cr);
}

// @verif props=C09,C02 tier=extended timeout=5400 mem=20 unwind=9 bound="as c09_iter_pikevm_utf8 with StartPredicate::StartAnchored (engine can only match at 0)" funcs="PikeVMExecutor::next_match (anchored branch)"
// @verif stubs="pikevm::MatchAttempter::try_at_pos -> table"
#[kani::proof]
#[kani::unwind(9)]
#[kani::stub(crate::pikevm::MatchAttempter::try_at_pos, stub_pike_try_at_pos)]
fn c09_iter_pikevm_anchored_n3() {
    let cr = prog_anchored(vec![Insn::Goal], 0, 0);
    c09_body!(PikeVMExecutor<Utf8Input>, &cr, true, false, 3);
    core::mem::forget(cr);
}
