#![cfg(feature = "pattern")]
#![feature(pattern)]
use core::str::pattern::{Pattern, ReverseSearcher, SearchStep, Searcher};
use regress::Regex;

fn tiles(steps: &[SearchStep], len: usize) -> bool {
    let mut at = 0;
    for s in steps {
        match *s {
            SearchStep::Match(a, b) | SearchStep::Reject(a, b) => {
                if a != at || b < a { return false; }
                at = b;
            }
            SearchStep::Done => {}
        }
    }
    at == len
}

#[test]
fn forward_steps_tile() {
    let re = Regex::new(r"\d*").unwrap();
    let h = "ab12cd";
    let mut s = (&re).into_searcher(h);
    let mut steps = vec![];
    loop { let st = s.next(); if st == SearchStep::Done { break; } steps.push(st); }
    assert!(tiles(&steps, h.len()), "forward steps leave gaps: {:?}", steps);
    let ms: Vec<(usize, usize)> = steps.iter().filter_map(|s| if let SearchStep::Match(a, b) = *s { Some((a, b)) } else { None }).collect();
    let fi: Vec<(usize, usize)> = re.find_iter(h).map(|m| (m.start(), m.end())).collect();
    assert_eq!(ms, fi);
}

#[test]
fn backward_steps_tile() {
    let re = Regex::new(r"\d*").unwrap();
    let h = "ab12cd";
    let mut s = (&re).into_searcher(h);
    let mut steps = vec![];
    loop { let st = s.next_back(); if st == SearchStep::Done { break; } steps.push(st); }
    steps.reverse();
    assert!(tiles(&steps, h.len()), "backward steps leave gaps or overlap: {:?}", steps);
    assert_eq!(h.rmatches(&re).collect::<Vec<_>>(), vec!["", "", "", "12", "", ""]);
}
