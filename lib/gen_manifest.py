#!/usr/bin/env python3
"""Regenerates /verif/MANIFEST.json from lib/props.py (claimed properties) and the table below."""
import json
import os
import sys

sys.path.insert(0, os.path.dirname(os.path.abspath(__file__)))
import props  # noqa: E402

VERIF = os.path.dirname(os.path.dirname(os.path.abspath(__file__)))

NOT_APPLICABLE = {
    "C05": "termination needs the interpreter unrolled through dozens of iterations with a symbolic instruction "
           "pointer (>5 min per such iteration under CBMC); no step-local ranking function exists; see DESIGN.md C05",
    "C07": "the parser cannot be executed symbolically here: Parser owns a HashMap whose RandomState needs a syscall Kani "
           "cannot model (paths die before parsing), with the hasher stubbed symex did not finish for 2 code points, and "
           "the alloc/hashbrown build exceeded 12 GB (DESIGN 2.3 P18-P23); stack exhaustion and adversarially large "
           "inputs are outside any bounded model checker's reach; no SMT transcription of a 2100-line recursive-descent "
           "parser is attempted",
    "C08": "needs the parser under symbolic input plus an independent ES2025 recogniser; the parser is out of reach "
           "(see C07).  Consequences of grammar defects that reach the compiled program are caught by C01/C12 on the corpus",
    "C19": "quantifies over thread interleavings; Kani/CBMC do not explore schedules of Rust code; see DESIGN.md C19",
}
PENDING = "check not built yet (work in progress in this session; see DESIGN.md for the planned harnesses)"

LEVEL_TEXT = {
    "C01": "bounded, solver-decided: (1) SMT path enumeration (z3) of the programs the real compile pipeline produces for a "
           "corpus of patterns with choice points, lookarounds, backreferences and case-insensitivity, against an ES "
           "reference matcher, for every haystack of each enumerated shape (<= 3-4 characters, byte values symbolic); "
           "(2) Kani/CBMC on the real executor for a few straight-line programs over <= 2 symbolic characters; (3) Kani "
           "kernels for the real loop decision, one-character loops and backtrack records. "
           "Not a proof: outside the corpus and the bounds nothing is claimed.",
    "C02": "Kani/CBMC kernels tie BOTH real executors' step functions (loop decision, one-character loop step, undo "
           "records, iteration) to one specification; whole-executor agreement is explored "
           "natively on one solver-produced witness per feasible path of the bytecode machine (solver-guided, not "
           "all-inputs).",
    "C03": "translation validation decided by an SMT solver: for each corpus pattern the optimised and unoptimised programs "
           "emitted by the real pipeline are executed on every haystack of the enumerated shapes (byte values symbolic) and "
           "must agree on match range and all captures; counterexamples are replayed on the real engine.",
    "C04": "SMT-decided equivalence, per corpus pattern, of the search with the start predicate derived by the real "
           "analysis and the search that attempts every offset; plus Kani/CBMC verification of the real byte kernels "
           "(lead-byte computation, first-byte bitmap, align_to bitmap scan, small sets) for all inputs within bounds.",
    "C05": "bounded termination on the bytecode machine (transcription of the real interpreter, validated natively each "
           "run): no haystack of <= 3 characters drives any program of the nested-quantifier family beyond the step "
           "budget; suspected divergences are confirmed on the real engine under a time limit.",
    "C06": "Kani/CBMC on the real unsafe code in the default (pointer-position, unchecked) build: every dereference, "
           "offset, slice construction and unreachable_unchecked reached is checked for all haystacks within the bound; "
           "decoders are also compared with the UTF-8 definition.  Whole-engine runs are explored natively on one "
           "solver-produced witness per feasible path of the bytecode machine (every entry point must return valid "
           "char-boundary ranges).",
    "C09": "Kani/CBMC on the real iterator and search loops of both executors over an ARBITRARY deterministic engine "
           "(symbolic result table), all haystacks <= 1 character, all start offsets (2-3 character harnesses exceed the machine, DESIGN 8.4); plus a "
           "solver-guided native exploration: on one witness per feasible path of the bytecode machine every real iterator "
           "must yield the lastIndex unfolding of fresh first-match searches.",
    "C10": "Kani/CBMC: the real fold / legacy upper-case table lookups for EVERY code point against independent oracles; "
           "the real compile-time expansion of /c/ and /[c]/ for every character with a non-trivial class (rows dumped "
           "natively, row lemma decided symbolically); case-insensitive backreference kernel; plus SMT-decided engine "
           "behaviour for a corpus of case-insensitive patterns.",
    "C11": "Kani/CBMC: for each property name the table the real dispatcher returns is compared with an independent table "
           "for a symbolic code point (all code points); exact for six std-backed properties, Unicode-16-relative for the "
           "rest; the parser path is compared with the dispatcher natively for every name.",
    "C12": "Kani/CBMC on the real interval-set algebra from arbitrary well-formed pre-states and on the ASCII bracket fast "
           "path; SMT-decided comparison of compiled class expressions (legacy and v-mode, generated to depth 2 with "
           "independently computed denotations) with ES semantics for all subjects within the shapes.",
    "C13": "Kani/CBMC: AsciiInput vs Utf8Input primitives and fold relation on all ASCII bytes; one-character loops with "
           "non-byte pattern characters on AsciiInput; SMT comparison of the machine in ASCII and UTF-8 mode (optimised "
           "and unoptimised program) on ASCII shapes with native validation against find_from_ascii.",
    "C14": "Kani/CBMC on the real Utf16Input / Ucs2Input decoders and backreference primitive for arbitrary u16 input "
           "(lone surrogates included) within the bound.",
    "C15": "the same Kani harness files are verified under the other feature sets against the same oracles; compile "
           "verdicts and compiled programs of a pattern corpus are compared natively across feature sets.",
    "C16": "bounded model checking (Kani/CBMC) of the real Match accessors over every capture vector of <=3 slots and "
           "the name assignments over {unnamed,a,b} incl. duplicates; group-name order of the real emitter checked on a "
           "corpus of named-group patterns.",
    "C17": "Kani/CBMC: the real template expander against a reference expander for all templates of <= 2 (quick) / 3-4 "
           "(thorough) symbols over a 9-symbol alphabet; the real splice loops (replace/replace_with on <= 1 character, "
           "replace_all/replace_all_with on the empty haystack in quick; <= 1-2 characters in thorough) over an arbitrary "
           "deterministic engine.  std String growth is replaced by a fixed-capacity model (overflow asserted).",
    "C18": "Kani/CBMC: escape(s) for every string of <= 3 scalar values (all of Unicode) equals 'backslash before exactly "
           "the 14 syntax characters'.  std String growth is replaced by a fixed-capacity model (overflow asserted).",
    "C20": "Kani/CBMC on the real forward Searcher (RegexSearcher::next through <&Regex as Pattern>::into_searcher) over an "
           "arbitrary deterministic engine: the whole step stream until Done is adjacent, covering, on char boundaries, "
           "and the Match steps are the find_iter sequence, for every haystack of <= 1 character (1-4 bytes).  The "
           "ReverseSearcher and 2-character harnesses exist but exceed this machine's memory/time (DESIGN 8.4) and are "
           "in no registered command: next_back is NOT covered by a solver verdict.",
}


def main():
    ids = [json.loads(l)["id"] for l in open(os.path.join(VERIF, "properties.jsonl"))]
    checks = []
    for pid in ids:
        if pid in props.PROPS and props.PROPS[pid].get("claimed", True):
            sp = props.PROPS[pid]
            checks.append(dict(
                property_id=pid,
                quick_cmd="./check %s --tier quick" % pid,
                thorough_cmd="./check %s --tier thorough" % pid,
                evidence_file="evidence/%s.json" % pid,
                replay_cmd_template="./check replay {path}",
                engine="kani-cbmc",
                level_claimed=dict(
                    category="model_checking",
                    text=sp.get("level_text") or LEVEL_TEXT.get(pid) or
                    "bounded model checking (Kani 0.68 -> CBMC 6.11 -> SAT) of the real functions named in the evidence "
                    "file; every input within each harness's stated bound is decided by the solver, unwinding "
                    "assertions on, reachability witnesses (kani::cover!) required; nothing is claimed outside the bounds",
                    design_ref="DESIGN.md section 4, " + pid,
                ),
                level_note="; ".join(sp.get("assumptions", [])) + " || outside the claim: " + sp.get("outside", ""),
                technique="solver-based checking of the real code: Kani/CBMC symbolic execution + SAT, bounded",
            ))
    na = []
    for pid in ids:
        if pid in props.PROPS and props.PROPS[pid].get("claimed", True):
            continue
        na.append(dict(property_id=pid, reason=NOT_APPLICABLE.get(pid, PENDING)))
    man = dict(
        version=1,
        setup_cmd="./check setup",
        hooks=dict(
            guard="none",
            enable="no source hooks: every check copies /repo's working tree into a scratch mirror crate and appends "
                   "`#[cfg(kani)] #[path=...] mod verif_h;` to the COPY of the module under test",
            baseline_off_cmd="cd /repo && cargo test --workspace --no-fail-fast --offline",
            source_commits=[],
            add_only=True,
        ),
        engines=[dict(name="kani-cbmc", path="lib/driver.py", serves_properties=[c["property_id"] for c in checks],
                      kind_free_text="Kani 0.68.0 proof harnesses as child modules of the real modules (mirror crate "
                                     "regenerated from /repo on every run), CBMC 6.11.0 + CaDiCaL; counterexamples are "
                                     "replayed natively with Kani concrete playback before a VIOLATION is reported")],
        checks=checks,
        not_applicable=na,
        notes="Exit 2 = inconclusive (timeout, OOM, vacuous harness, unwinding bound too small, non-reproducing "
              "counterexample); never reported as a pass.  known_findings.txt lists recorded and repaired defects.",
    )
    with open(os.path.join(VERIF, "MANIFEST.json"), "w") as f:
        json.dump(man, f, indent=1)
    print("MANIFEST.json: %d checks, %d not_applicable" % (len(checks), len(na)))


if __name__ == "__main__":
    main()
