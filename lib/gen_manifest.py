#!/usr/bin/env python3
"""Regenerates /verif/MANIFEST.json from lib/props.py (claimed properties) and the table below."""
import json
import os
import sys

sys.path.insert(0, os.path.dirname(os.path.abspath(__file__)))
import props  # noqa: E402

VERIF = os.path.dirname(os.path.dirname(os.path.abspath(__file__)))

NOT_APPLICABLE = {
    "C05": "termination needs the interpreter unrolled through dozens of iterations with a symbolic instruction "
           "pointer (>5 min per such iteration under CBMC); no step-local ranking function exists; see DESIGN.md C05",
    "C07": "the parser cannot be executed symbolically here: Parser owns a HashMap whose RandomState needs a syscall Kani "
           "cannot model (paths die before parsing), with the hasher stubbed symex did not finish for 2 code points, and "
           "the alloc/hashbrown build exceeded 12 GB (DESIGN 2.3 P18-P23); stack exhaustion and adversarially large "
           "inputs are outside any bounded model checker's reach; no SMT transcription of a 2100-line recursive-descent "
           "parser is attempted",
    "C08": "needs the parser under symbolic input plus an independent ES2025 recogniser; the parser is out of reach "
           "(see C07).  Consequences of grammar defects that reach the compiled program are caught by C01/C12 on the corpus",
    "C19": "quantifies over thread interleavings; Kani/CBMC do not explore schedules of Rust code; see DESIGN.md C19",
}
PENDING = "check not built yet (work in progress in this session; see DESIGN.md for the planned harnesses)"

LEVEL_TEXT = {
    "C16": "bounded model checking (Kani/CBMC) of the real Match accessors over every capture vector of <=3 slots and "
           "every name assignment over {unnamed,a,b}; all inputs within the bound are decided by the SAT solver",
}


def main():
    ids = [json.loads(l)["id"] for l in open(os.path.join(VERIF, "properties.jsonl"))]
    checks = []
    for pid in ids:
        if pid in props.PROPS and props.PROPS[pid].get("claimed", True):
            sp = props.PROPS[pid]
            checks.append(dict(
                property_id=pid,
                quick_cmd="./check %s --tier quick" % pid,
                thorough_cmd="./check %s --tier thorough" % pid,
                evidence_file="evidence/%s.json" % pid,
                replay_cmd_template="./check replay {path}",
                engine="kani-cbmc",
                level_claimed=dict(
                    category="model_checking",
                    text=sp.get("level_text") or LEVEL_TEXT.get(pid) or
                    "bounded model checking (Kani 0.68 -> CBMC 6.11 -> SAT) of the real functions named in the evidence "
                    "file; every input within each harness's stated bound is decided by the solver, unwinding "
                    "assertions on, reachability witnesses (kani::cover!) required; nothing is claimed outside the bounds",
                    design_ref="DESIGN.md section 4, " + pid,
                ),
                level_note="; ".join(sp.get("assumptions", [])) + " || outside the claim: " + sp.get("outside", ""),
                technique="solver-based checking of the real code: Kani/CBMC symbolic execution + SAT, bounded",
            ))
    na = []
    for pid in ids:
        if pid in props.PROPS and props.PROPS[pid].get("claimed", True):
            continue
        na.append(dict(property_id=pid, reason=NOT_APPLICABLE.get(pid, PENDING)))
    man = dict(
        version=1,
        setup_cmd="./check setup",
        hooks=dict(
            guard="none",
            enable="no source hooks: every check copies /repo's working tree into a scratch mirror crate and appends "
                   "`#[cfg(kani)] #[path=...] mod verif_h;` to the COPY of the module under test",
            baseline_off_cmd="cd /repo && cargo test --workspace --no-fail-fast --offline",
            source_commits=[],
            add_only=True,
        ),
        engines=[dict(name="kani-cbmc", path="lib/driver.py", serves_properties=[c["property_id"] for c in checks],
                      kind_free_text="Kani 0.68.0 proof harnesses as child modules of the real modules (mirror crate "
                                     "regenerated from /repo on every run), CBMC 6.11.0 + CaDiCaL; counterexamples are "
                                     "replayed natively with Kani concrete playback before a VIOLATION is reported")],
        checks=checks,
        not_applicable=na,
        notes="Exit 2 = inconclusive (timeout, OOM, vacuous harness, unwinding bound too small, non-reproducing "
              "counterexample); never reported as a pass.  known_findings.txt lists recorded and repaired defects.",
    )
    with open(os.path.join(VERIF, "MANIFEST.json"), "w") as f:
        json.dump(man, f, indent=1)
    print("MANIFEST.json: %d checks, %d not_applicable" % (len(checks), len(na)))


if __name__ == "__main__":
    main()
