"""Run Kani harnesses of a mirror crate in parallel and parse the results.

One `cargo kani --only-codegen` builds the goto binaries of every harness once; then each
harness is verified by its own `cargo kani --harness <name> --exact` process that shares the
target directory (cargo finds everything fresh, so it goes straight to CBMC).  Each process runs
under `timeout` and `ulimit -v`; its full output is kept in a log file.

Result classes per harness:
  pass          VERIFICATION:- SUCCESSFUL and every cover satisfied
  fail          VERIFICATION:- FAILED with at least one failed (non-unwinding) check
  unwind        only unwinding assertions failed -> bound too small -> inconclusive
  vacuous       SUCCESSFUL but a kani::cover! was not satisfied -> inconclusive
  timeout/oom/error  -> inconclusive
"""
import os
import re
import subprocess
import time
import concurrent.futures as cf

KANI_ENV = dict(os.environ)
KANI_ENV["CARGO_NET_OFFLINE"] = "true"
KANI_ENV.pop("RUSTFLAGS", None)

CBMC_ARGS = ["--max-field-sensitivity-array-size", "4096"]


def _base_cmd(target_dir, features=None, no_default=False, stubbing=False, extra=()):
    cmd = ["cargo", "kani", "--target-dir", target_dir]
    if no_default:
        cmd.append("--no-default-features")
    if features:
        cmd += ["--features", ",".join(features)]
    cmd += ["-Z", "unstable-options"]
    if stubbing:
        cmd += ["-Z", "stubbing"]
    cmd += list(extra)
    return cmd


def build(mirror, target_dir, log, features=None, no_default=False, stubbing=False, timeout=1800):
    cmd = _base_cmd(target_dir, features, no_default, stubbing) + ["--only-codegen"]
    t0 = time.time()
    with open(log, "w") as f:
        f.write("$ " + " ".join(cmd) + "\n")
        f.flush()
        try:
            p = subprocess.run(cmd, cwd=mirror, stdout=f, stderr=subprocess.STDOUT, env=KANI_ENV, timeout=timeout)
            rc = p.returncode
        except subprocess.TimeoutExpired:
            rc = 124
    return rc, time.time() - t0


CHECK_RE = re.compile(r"^Check (\d+): (.+?)\s*$")
SUMMARY_RE = re.compile(r"\*\* (\d+) of (\d+) failed")
COVER_RE = re.compile(r"\*\* (\d+) of (\d+) cover properties satisfied")


def parse_log(text):
    res = {
        "status": None,
        "checks_total": 0,
        "checks_failed": 0,
        "covers_total": 0,
        "covers_sat": 0,
        "failed_checks": [],
        "unsat_covers": [],
        "verify_time_s": None,
        "symex_s": None,
        "solver_s": None,
        "vccs": None,
        "vccs_remaining": None,
        "stubs": [],
        "user_assertions": [],
        "sat_covers": [],
    }
    lines = text.splitlines()
    i = 0
    cur = None
    block = {}
    blocks = []
    for ln in lines:
        m = CHECK_RE.match(ln)
        if m:
            if block:
                blocks.append(block)
            block = {"name": m.group(2)}
            continue
        s = ln.strip()
        if block is not None and block:
            if s.startswith("- Status:"):
                block["status"] = s.split(":", 1)[1].strip()
            elif s.startswith("- Description:"):
                block["desc"] = s.split(":", 1)[1].strip().strip('"')
            elif s.startswith("- Location:"):
                block["loc"] = s.split(":", 1)[1].strip()
        if s.startswith("- Stub:") or s.startswith("Stub:"):
            res["stubs"].append(s)
    if block:
        blocks.append(block)
    for b in blocks:
        st = b.get("status", "")
        is_cover = ".cover." in b["name"]
        # assertions written in the harness files (not std's or the repository's own debug assertions) that the
        # solver proved, and reachability witnesses that were satisfied: the distinct non-trivial obligations
        if "verif_h" in b["name"] or "verif_top" in b["name"]:
            if is_cover and st == "SATISFIED":
                res["sat_covers"].append(b.get("desc", b["name"]))
            elif not is_cover and ".assertion." in b["name"] and st == "SUCCESS":
                res["user_assertions"].append(b.get("desc", b["name"]))
        if is_cover:
            if st != "SATISFIED":
                res["unsat_covers"].append({"name": b["name"], "desc": b.get("desc", ""), "status": st, "loc": b.get("loc", "")})
        elif st in ("FAILURE", "UNDETERMINED"):
            if st == "FAILURE":
                res["failed_checks"].append({"name": b["name"], "desc": b.get("desc", ""), "loc": b.get("loc", "")})
    m = SUMMARY_RE.search(text)
    if m:
        res["checks_failed"] = int(m.group(1))
        res["checks_total"] = int(m.group(2))
    m = COVER_RE.search(text)
    if m:
        res["covers_sat"] = int(m.group(1))
        res["covers_total"] = int(m.group(2))
    m = re.search(r"Verification Time: ([0-9.]+)s", text)
    if m:
        res["verify_time_s"] = float(m.group(1))
    m = re.search(r"Runtime Symex: ([0-9.]+)s", text)
    if m:
        res["symex_s"] = float(m.group(1))
    sol = re.findall(r"Runtime Solver: ([0-9.]+)s", text)
    if sol:
        res["solver_s"] = sum(float(x) for x in sol)
    m = re.search(r"Generated (\d+) VCC\(s\), (\d+) remaining after simplification", text)
    if m:
        res["vccs"] = int(m.group(1))
        res["vccs_remaining"] = int(m.group(2))
    if "VERIFICATION:- SUCCESSFUL" in text:
        res["status"] = "SUCCESSFUL"
    elif "VERIFICATION:- FAILED" in text:
        res["status"] = "FAILED"
    return res


def classify(rc, text, parsed):
    if rc == 124 or rc == 137 and "VERIFICATION" not in text:
        return "timeout"
    if ("appears to have run out of memory" in text or "std::bad_alloc" in text or "MemoryError" in text
            or "Solver ran out of memory" in text):
        return "oom"
    if parsed["status"] == "SUCCESSFUL":
        if parsed["unsat_covers"] or parsed["covers_sat"] != parsed["covers_total"]:
            return "vacuous"
        return "pass"
    if parsed["status"] == "FAILED":
        real = [c for c in parsed["failed_checks"] if "unwinding assertion" not in c["desc"]]
        if real:
            return "fail"
        if parsed["failed_checks"]:
            return "unwind"
        return "error"
    return "error"


def run_one(mirror, target_dir, harness, logdir, timeout=1200, mem_gb=14, features=None, no_default=False,
            stubbing=False, extra=(), tag="", cbmc_extra=()):
    cmd = _base_cmd(target_dir, features, no_default, stubbing, extra) + ["--harness", harness, "--exact"]
    cmd += ["--cbmc-args"] + CBMC_ARGS + list(cbmc_extra)
    log = os.path.join(logdir, (tag + harness).replace("::", "__") + ".log")
    sh = "ulimit -v %d; exec timeout -k 10 %d %s" % (
        int(mem_gb * 1024 * 1024),
        int(timeout),
        " ".join("'%s'" % c for c in cmd),
    )
    t0 = time.time()
    with open(log, "w") as f:
        f.write("$ " + sh + "\n")
        f.flush()
        p = subprocess.run(["bash", "-c", sh], cwd=mirror, stdout=f, stderr=subprocess.STDOUT, env=KANI_ENV)
    wall = time.time() - t0
    with open(log, errors="replace") as f:
        text = f.read()
    parsed = parse_log(text)
    cls = classify(p.returncode, text, parsed)
    parsed.update({"harness": harness, "class": cls, "rc": p.returncode, "wall_s": round(wall, 1), "log": log})
    return parsed


def run_many(mirror, target_dirs, jobs, logdir, parallel=14, mem_budget_gb=50, on_result=None, **common):
    """jobs: list of dicts with at least 'harness'; optional 'timeout', 'mem_gb'.
    target_dirs: a base path; worker k uses <base>_w<k> so that concurrent cargo invocations never
    contend for the same build-directory lock (each invocation recompiles the crate for its harness).
    Admission is memory-aware: the sum of the jobs' mem_gb limits never exceeds mem_budget_gb
    (VERIF_MEM_GB overrides the default, e.g. to run two checks side by side)."""
    mem_budget_gb = float(os.environ.get("VERIF_MEM_GB", mem_budget_gb))
    import queue
    import threading
    os.makedirs(logdir, exist_ok=True)
    results = []
    pool = queue.Queue()
    for k in range(parallel):
        pool.put(k)
    cond = threading.Condition()
    used = [0.0]

    def work(j):
        need = min(float(j.get("mem_gb", common.get("mem_gb", 14))), mem_budget_gb)
        with cond:
            while used[0] + need > mem_budget_gb:
                cond.wait()
            used[0] += need
        wk = pool.get()
        try:
            kw = dict(common)
            # a job may carry its own build (mirror directory, target base, feature set): jobs of several
            # builds then share one worker pool instead of running build after build
            for k in ("timeout", "mem_gb", "extra", "tag", "features", "no_default", "stubbing", "cbmc_extra"):
                if k in j:
                    kw[k] = j[k]
            td = "%s_w%d" % (j.get("target_base", target_dirs), wk)
            return run_one(j.get("mirror", mirror), td, j["harness"], logdir, **kw)
        finally:
            pool.put(wk)
            with cond:
                used[0] -= need
                cond.notify_all()

    with cf.ThreadPoolExecutor(max_workers=parallel) as ex:
        futs = {ex.submit(work, j): j for j in jobs}
        for fu in cf.as_completed(futs):
            r = fu.result()
            r["job"] = {k: v for k, v in futs[fu].items() if k != "extra"}
            results.append(r)
            if on_result:
                on_result(r)
    results.sort(key=lambda r: r["harness"])
    return results
