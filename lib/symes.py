"""ECMAScript pattern semantics (ECMA-262 22.2.2) over the corpus AST, executed on the symbolic haystack
of symvm.Hay.  Written from the specification (continuation-passing backtracking matcher), independent
of regress.  Branch conditions go through the same PathCtx as the bytecode machine, so both can be run
on one path and their (concrete) results compared.

State = (end index in CHARACTERS, captures tuple of (start,end) char indices or None).
"""
import z3

import corpus
from symvm import ModelError, in_intervals


class ES:
    def __init__(self, case, hay, ctx, step_limit=200000):
        self.case = case
        self.fl = case.fl
        self.hay = hay
        self.ctx = ctx
        self.n = hay.n
        self.steps = 0
        self.step_limit = step_limit

    def _tick(self):
        self.steps += 1
        if self.steps > self.step_limit:
            raise ModelError("ES reference matcher exceeded its step limit")

    def _test(self, i, ivs):
        return self.ctx.branch(in_intervals(self.hay.cp[i], ivs))

    def m(self, node, x, caps, k, fwd):
        """Match node at state (x, caps) in direction fwd, then continue with k(x', caps')."""
        self._tick()
        fl = self.fl
        if isinstance(node, (corpus.Lit, corpus.Dot, corpus.Esc, corpus.Cls, corpus.RawCls)):
            cs = node.charset(fl)
            if fwd:
                if x >= self.n or not self._test(x, cs):
                    return None
                return k(x + 1, caps)
            if x == 0 or not self._test(x - 1, cs):
                return None
            return k(x - 1, caps)
        if isinstance(node, corpus.Opaque):
            return self.m(node.node, x, caps, k, fwd)
        if isinstance(node, corpus.Start):
            if x == 0 or (fl.multiline and self._test(x - 1, corpus.LINE_TERM)):
                return k(x, caps)
            return None
        if isinstance(node, corpus.End):
            if x == self.n or (fl.multiline and self._test(x, corpus.LINE_TERM)):
                return k(x, caps)
            return None
        if isinstance(node, corpus.WB):
            w = corpus.word_chars(fl)
            a = x > 0 and self._test(x - 1, w)
            b = x < self.n and self._test(x, w)
            if (a != b) == node.neg:
                return None
            return k(x, caps)
        if isinstance(node, corpus.Group):
            if not node.cap:
                return self.m(node.body, x, caps, k, fwd)
            idx = node.idx

            def after(y, c2):
                r = (x, y) if fwd else (y, x)
                c3 = c2[:idx] + (r,) + c2[idx + 1:]
                return k(y, c3)

            return self.m(node.body, x, caps, after, fwd)
        if isinstance(node, corpus.Backref):
            g = node.k - 1
            if g >= len(caps) or caps[g] is None:
                return k(x, caps)
            a, b = caps[g]
            ln = b - a
            if fwd:
                if x + ln > self.n:
                    return None
                base, y = x, x + ln
            else:
                if ln > x:
                    return None
                base, y = x - ln, x - ln
            if fl.icase:
                raise ModelError("case-insensitive backreference not modelled in the SMT reference")
            conds = [self.hay.cp[a + i] == self.hay.cp[base + i] for i in range(ln)]
            if conds and not self.ctx.branch(z3.And(conds) if len(conds) > 1 else conds[0]):
                return None
            return k(y, caps)
        if isinstance(node, corpus.Look):
            r = self.m(node.body, x, caps, lambda y, c2: (y, c2), node.ahead)
            if node.neg:
                if r is not None:
                    return None
                return k(x, caps)
            if r is None:
                return None
            return k(x, r[1])
        if isinstance(node, corpus.Rep):
            return self.repeat(node.body, node.n, node.n, True, x, caps, k, fwd)
        if isinstance(node, corpus.Quant):
            return self.repeat(node.body, node.mn, node.mx, node.greedy, x, caps, k, fwd)
        if isinstance(node, corpus.Seq):
            items = node.items if fwd else list(reversed(node.items))

            def run(i, y, c2):
                if i == len(items):
                    return k(y, c2)
                return self.m(items[i], y, c2, lambda z, c3: run(i + 1, z, c3), fwd)

            return run(0, x, caps)
        if isinstance(node, corpus.Alt):
            for it in node.items:
                r = self.m(it, x, caps, k, fwd)
                if r is not None:
                    return r
            return None
        raise AssertionError(node)

    def repeat(self, body, mn, mx, greedy, x, caps, k, fwd):
        """RepeatMatcher (22.2.2.3.1). mx None = infinity."""
        self._tick()
        if mx == 0:
            return k(x, caps)

        def d(y, c2):
            if mn == 0 and y == x:
                return None
            mn2 = 0 if mn == 0 else mn - 1
            mx2 = None if mx is None else mx - 1
            return self.repeat(body, mn2, mx2, greedy, y, c2, k, fwd)

        cr = list(caps)
        for g in corpus.groups_in(body):
            cr[g] = None
        cr = tuple(cr)
        if mn != 0:
            return self.m(body, x, cr, d, fwd)
        if not greedy:
            z = k(x, caps)
            if z is not None:
                return z
            return self.m(body, x, cr, d, fwd)
        z = self.m(body, x, cr, d, fwd)
        if z is not None:
            return z
        return k(x, caps)

    def find_from(self, s0):
        """s0: start in characters.  Returns (s, e, caps) in BYTE offsets or None."""
        off = self.hay.off
        for s in range(s0, self.n + 1):
            caps0 = tuple([None] * self.case.ngroups)
            r = self.m(self.case.node, s, caps0, lambda y, c: (y, c), True)
            if r is not None:
                e, caps = r
                return (off[s], off[e], tuple(None if c is None else (off[c[0]], off[c[1]]) for c in caps))
        return None
