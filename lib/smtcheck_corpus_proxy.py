"""Pattern lists for the native (concrete) cross-feature comparison of C15; importable without z3."""
import random

import corpus


def patterns(seed, count):
    out = []
    for c in corpus.core_cases():
        out.append((c.src, c.flags, False))
        out.append((c.src, c.flags, True))
    # syntactically interesting and invalid patterns: verdicts must agree too
    for p in ["a{", "a{1", "a{1,2", "(", ")", "[", "]", "\\c", "\\k", "\\k<a>", "(?<a>x)\\k<a>", "x**", "(?=a)*", "(?<=a)*",
              "[b-a]", "a{2,1}", "\\p{Lu}", "\\p{Foo}", "[a&&b]", "[a--b]", "[\\q{ab|c}]", "\\u{110000}", "\\u{61}",
              "(?<a>x)|(?<a>y)", "(?<a>x)(?<a>y)", "\\1(a)", "\\2(a)", "(?i:a)b", "(?-i:a)", "(?ii:a)", "[[a-z]&&[aeiou]]"]:
        for f in ["", "u", "v", "i", "iv"]:
            out.append((p, f, False))
    rng = random.Random(seed)
    rng.shuffle(out)
    return out[:count]
