import json
import os
import re
import shutil
import subprocess
import sys
import tempfile
import time

import kani
import mirror
import props

VERIF = mirror.VERIF
REPO = mirror.REPO
HARNESS_DIR = os.path.join(VERIF, "harness")
KNOWN = os.path.join(VERIF, "known_findings.txt")

BUILDS = {
    "default": dict(features=[], no_default=False),
    "index": dict(features=["index-positions"], no_default=False),
    "safe": dict(features=["prohibit-unsafe"], no_default=False),
    "index_safe": dict(features=["index-positions", "prohibit-unsafe"], no_default=False),
    "utf16": dict(features=["utf16"], no_default=False),
    "pattern": dict(features=["pattern"], no_default=False),
    "pattern_index": dict(features=["pattern", "index-positions"], no_default=False),
    "alloc": dict(features=["alloc", "backend-pikevm"], no_default=True),
}

ANNOT_RE = re.compile(r"^\s*// @verif\s+(.*)$")
KV_RE = re.compile(r'(\w+)=("([^"]*)"|\S+)')
FN_RE = re.compile(r"^\s*(?:pub(?:\([^)]*\))?\s+)?fn\s+(\w+)")


# replay files of reported violations (VERIF_REPLAY_DIR: used when evaluating seeded changes)
REPLAYS = os.environ.get("VERIF_REPLAY_DIR", os.path.join(VERIF, "replays"))

def log(*a):
    print(*a, flush=True)


# --------------------------------------------------------------------------------------
# harness discovery
# --------------------------------------------------------------------------------------


def parse_harness_file(path):
    """Return list of harness dicts found in a harness source file."""
    out = []
    with open(path) as f:
        lines = f.read().splitlines()
    i = 0
    while i < len(lines):
        m = ANNOT_RE.match(lines[i])
        if m:
            kv = {}
            for k, v, q in KV_RE.findall(m.group(1)):
                kv[k] = q if v.startswith('"') else v
            j = i + 1
            while j < len(lines) and not FN_RE.match(lines[j]):
                mm = ANNOT_RE.match(lines[j])
                if mm:  # continuation annotation lines
                    for k, v, q in KV_RE.findall(mm.group(1)):
                        kv[k] = q if v.startswith('"') else v
                j += 1
            if j < len(lines):
                kv["fn"] = FN_RE.match(lines[j]).group(1)
                kv["file"] = path
                kv["annot_line"] = i
                kv["fn_line"] = j
                kv["props"] = kv.get("props", "").split(",")
                kv["tier"] = kv.get("tier", "quick")
                kv["timeout"] = int(kv.get("timeout", "900"))
                kv["mem"] = float(kv.get("mem", "9"))
                kv["builds"] = kv.get("builds", "default").split(",")
                out.append(kv)
            i = j
        i += 1
    return out


def module_of(path):
    base = os.path.basename(path)
    # <module>_h.rs or <module>_h_<suffix>.rs
    m = re.match(r"^([a-z0-9]+)_h(?:_\w+)?\.rs$", base)
    return m.group(1) if m else None


def discover(extra_dirs=()):
    hs = []
    for d in (HARNESS_DIR,) + tuple(extra_dirs):
        if not os.path.isdir(d):
            continue
        for name in sorted(os.listdir(d)):
            if name.endswith(".rs") and module_of(name):
                hs += parse_harness_file(os.path.join(d, name))
    return hs


# --------------------------------------------------------------------------------------
# known findings
# --------------------------------------------------------------------------------------


def load_known():
    known, fixed = {}, []
    if os.path.exists(KNOWN):
        for ln in open(KNOWN):
            ln = ln.strip()
            if not ln or ln.startswith("#"):
                continue
            if ln.startswith("known:"):
                m = re.match(r"known:\s+property=(\S+)\s+id=(\S+)\s+(.*)$", ln)
                if m:
                    known[m.group(2)] = dict(prop=m.group(1), id=m.group(2), what=m.group(3))
            elif ln.startswith("fixed:"):
                fixed.append(ln)
    return known, fixed


def kf_const(fid):
    return "KF_" + re.sub(r"[^A-Za-z0-9]", "_", fid).upper()


# --------------------------------------------------------------------------------------
# filtered harness copies
# --------------------------------------------------------------------------------------


def filtered_copy(src, dest, selected_fns, known, extra_tail="", tail_sub=None):
    """Copy a harness file keeping #[kani::proof] only on the selected harness fns.  A nested
    `verif_cfg` module with the known-finding switches is prepended after inner attributes."""
    with open(src) as f:
        lines = f.read().splitlines()
    hs = parse_harness_file(src)
    drop = set()
    for h in hs:
        if h["fn"] not in selected_fns:
            for k in range(h["annot_line"], h["fn_line"]):
                if re.match(r"^\s*#\[kani::", lines[k]):
                    drop.add(k)
    ids = set(re.findall(r"verif_cfg::(KF_[A-Z0-9_]+)", "\n".join(lines)))
    cfg = ["#[allow(dead_code)]", "mod verif_cfg {"]
    on = {kf_const(k) for k in known}
    for c in sorted(ids):
        cfg.append("    pub const %s: bool = %s;" % (c, "true" if c in on else "false"))
    cfg.append("}")
    out = []
    inserted = False
    for k, ln in enumerate(lines):
        if not inserted and not ln.startswith("#![") and not ln.startswith("//") and ln.strip() != "":
            out += cfg
            inserted = True
        if k in drop:
            out.append("#[allow(dead_code)]")
        else:
            out.append(ln)
    if not inserted:
        out += cfg
    if extra_tail and tail_sub:
        # the harness lives in a nested module: the playback test must sit next to it
        for k, ln in enumerate(out):
            if re.match(r"^\s*(pub\s+)?mod\s+%s\s*\{" % re.escape(tail_sub), ln):
                out[k + 1:k + 1] = extra_tail.splitlines()
                extra_tail = ""
                break
    with open(dest, "w") as f:
        f.write("\n".join(out) + "\n" + extra_tail)


# --------------------------------------------------------------------------------------
# replay (concrete playback)
# --------------------------------------------------------------------------------------

PLAYBACK_RE = re.compile(r"Concrete playback unit test for `[^`]*`:\s*```\s*(.*?)```", re.S)


def concrete_playback(ctx, h, build):
    """Re-run a failed harness with concrete playback, then execute the generated unit test natively
    (dev profile) against the same mirror sources.  Returns dict(reproduced, test_src, native_out)."""
    bcfg = BUILDS[build]
    logp = os.path.join(ctx["logdir"], "playback_%s_%s.log" % (build, h["fn"]))
    cmd = kani._base_cmd(ctx["target"][build], bcfg["features"], bcfg["no_default"], ctx["stubbing"][build],
                         ["-Z", "concrete-playback", "--concrete-playback=print"])
    cmd += ["--harness", h["full"], "--exact", "--cbmc-args"] + kani.CBMC_ARGS
    with open(logp, "w") as f:
        try:
            subprocess.run(cmd, cwd=ctx["mirror"][build], stdout=f, stderr=subprocess.STDOUT, env=kani.KANI_ENV,
                           timeout=h["timeout"] * 2)
        except subprocess.TimeoutExpired:
            return dict(reproduced=False, test_src=None, native_out="playback generation timed out")
    text = open(logp, errors="replace").read()
    tests = [t.strip() for t in PLAYBACK_RE.findall(text)]
    if not tests:
        return dict(reproduced=False, test_src=None, native_out="no playback test in output; see " + logp)
    # Kani prints one test per failed check AND one per satisfied cover; the cover witnesses are ordinary
    # passing runs, so keep only the tests of failed checks when there are any.
    seen, uniq = set(), []
    for t in tests:
        nm = re.search(r"fn (kani_concrete_playback_\w+)", t)
        if nm and nm.group(1) not in seen:
            seen.add(nm.group(1))
            uniq.append(t)
    tests = uniq
    failing = [t for t in tests if "Check for `cover`" not in t]
    test_src = "\n\n".join(failing or tests) + "\n"
    rep = native_playback(ctx["scratch"], h, build, test_src, ctx["known"])
    rep["test_src"] = test_src
    return rep


def native_playback(scratch, h, build, test_src, known, release=False):
    """Build a mirror whose harness file carries the playback unit test and run it with
    `cargo kani playback`.  The test calls the harness function with the solver's concrete values, so
    the real code (current /repo tree) runs natively; a panic = reproduced."""
    tnames = re.findall(r"fn (kani_concrete_playback_\w+)", test_src)
    if not tnames:
        return dict(reproduced=False, native_out="malformed playback test")
    tname = "kani_concrete_playback_"
    pdir = os.path.join(scratch, "playback_%s_%s%s" % (build, h["fn"], "_rel" if release else ""))
    os.makedirs(pdir, exist_ok=True)
    hcopy = os.path.join(pdir, os.path.basename(h["file"]))
    filtered_copy(h["file"], hcopy, {h["fn"]}, known, extra_tail="\n" + test_src, tail_sub=h.get("sub"))
    mod = module_of(h["file"])
    mdir = os.path.join(pdir, "mirror")
    mirror.make_mirror(mdir, {mod: hcopy}, playback_hook=True)
    bcfg = BUILDS[build]
    cmd = ["cargo", "kani", "playback", "-Z", "concrete-playback"]
    if bcfg["no_default"]:
        cmd.append("--no-default-features")
    if bcfg["features"]:
        cmd += ["--features", ",".join(bcfg["features"])]
    if release:
        cmd.append("--release")
    cmd += ["--", tname]
    env = dict(kani.KANI_ENV)
    env["CARGO_TARGET_DIR"] = os.path.join(pdir, "target")
    try:
        p = subprocess.run(cmd, cwd=mdir, stdout=subprocess.PIPE, stderr=subprocess.STDOUT, env=env, timeout=1200)
        out = p.stdout.decode(errors="replace")
        rc = p.returncode
    except subprocess.TimeoutExpired:
        out, rc = "native playback timed out", 124
    ran = re.findall(r"test \S*kani_concrete_playback_\w+ \.\.\. (\w+)", out)
    reproduced = "FAILED" in ran
    ok = bool(ran) and all(r == "ok" for r in ran)
    shutil.rmtree(os.path.join(pdir, "target"), ignore_errors=True)
    return dict(reproduced=reproduced, passed_natively=ok, native_rc=rc, native_out=out[-3000:])


# --------------------------------------------------------------------------------------
# main check
# --------------------------------------------------------------------------------------


def run_check(pid, tier, only=None, keep=False, parallel=None):
    t_start = time.time()
    seed = int(os.environ.get("VERIF_SEED", "0"))
    spec = props.PROPS.get(pid)
    if spec is None:
        log("unknown or unclaimed property", pid)
        return 2
    scratch = tempfile.mkdtemp(prefix="verif_%s_" % pid, dir=os.environ.get("VERIF_SCRATCH", tempfile.gettempdir()))
    known_all, fixed = load_known()
    known = {k: v for k, v in known_all.items()}
    try:
        gen_dirs = []
        gen_info = {}
        if spec.get("gen"):
            gdir = os.path.join(scratch, "gen")
            os.makedirs(gdir)
            gen_info = spec["gen"](gdir, tier, seed, scratch) or {}
            gen_dirs.append(gdir)
        smt_proc = None
        smt_out = os.path.join(scratch, "smt_results.json")
        if spec.get("smt"):
            smt_log = open(os.path.join(scratch, "smt.log"), "w")
            smt_dir = os.path.join(scratch, "smt")
            os.makedirs(smt_dir)
            smt_env = dict(os.environ)
            smt_env["VERIF_KNOWN"] = ",".join(known_all.keys())
            smt_proc = subprocess.Popen(["python3-vt", os.path.join(VERIF, "lib", "smtcheck.py"), spec["smt"], tier, str(seed),
                                         smt_dir, smt_out], stdout=smt_log, stderr=subprocess.STDOUT, cwd=VERIF, env=smt_env)
        allh = discover(gen_dirs)
        sel = []
        for h in allh:
            if pid not in h["props"]:
                continue
            if tier == "quick" and h["tier"] != "quick":
                continue
            # tier=extended: harnesses that were written but never seen to finish within the machine's memory /
            # a few hours; they belong to no registered command (./check <ID> --tier extended runs only them)
            if tier == "thorough" and h["tier"] == "extended":
                continue
            if tier == "extended" and h["tier"] != "extended":
                continue
            if tier == "quick" and h.get("qprops") and pid not in h["qprops"].split(","):
                continue  # an expensive kernel runs in the quick tier only of the properties named in qprops=
            if only and not re.search(only, h["fn"]):
                continue
            kf = h.get("kf")
            if kf and kf not in known:
                continue  # witness of a finding that is not (or no longer) listed
            sel.append(h)
        if not sel and not smt_proc:
            log("no harness selected for", pid, tier)
            return 2
        if spec.get("override_builds"):
            # C15: the same harness files are run under other feature sets
            for h in sel:
                h["builds"] = spec["override_builds"](h, tier, seed)
        builds_needed = []
        for h in sel:
            for b in h["builds"]:
                if b not in builds_needed:
                    builds_needed.append(b)
        ctx = dict(scratch=scratch, logdir=os.path.join(scratch, "logs"), mirror={}, target={}, stubbing={}, known=known)
        os.makedirs(ctx["logdir"])
        ncpu = os.cpu_count() or 4
        parallel = parallel or max(1, min(14, ncpu - 2))
        results = []
        build_info = {}
        all_jobs = []
        build_failed = []
        for b in builds_needed:
            hb = [h for h in sel if b in h["builds"]]
            mods = {}
            files = {}
            for h in hb:
                files.setdefault(h["file"], set()).add(h["fn"])
            stub = False
            by_mod = {}
            for fpath, fns in files.items():
                by_mod.setdefault(module_of(fpath), []).append((fpath, fns))
            file_sub = {}
            for mod, lst in by_mod.items():
                dests = []
                for k, (fpath, fns) in enumerate(sorted(lst)):
                    dest = os.path.join(scratch, "hcopy_%s_%s" % (b, os.path.basename(fpath)))
                    filtered_copy(fpath, dest, fns, known)
                    dests.append(dest)
                    if "kani::stub" in open(fpath).read():
                        stub = True
                    file_sub[fpath] = ("f%d" % k) if len(lst) > 1 else None
                if len(lst) == 1:
                    mods[mod] = dests[0]
                else:
                    # several harness files for one module: a wrapper module that re-exports the real
                    # module's (private) items to its children
                    wrap = os.path.join(scratch, "hwrap_%s_%s.rs" % (b, mod))
                    with open(wrap, "w") as f:
                        f.write("#![allow(unused_imports, dead_code)]\nuse super::*;\n")
                        for k, dpath in enumerate(dests):
                            f.write('#[path = "%s"]\nmod f%d;\n' % (dpath, k))
                    mods[mod] = wrap
            mdir = os.path.join(scratch, "mirror_" + b)
            missing = mirror.make_mirror(mdir, mods)
            if missing:
                log("ERROR: modules missing from /repo/src:", missing)
                return 2
            tdir = os.path.join(scratch, "target_" + b)
            ctx["mirror"][b], ctx["target"][b], ctx["stubbing"][b] = mdir, tdir, stub
            bcfg = BUILDS[b]
            rc, bt = kani.build(mdir, tdir, os.path.join(ctx["logdir"], "build_%s.log" % b), bcfg["features"],
                                bcfg["no_default"], stub)
            build_info[b] = dict(rc=rc, seconds=round(bt, 1), features=bcfg["features"], no_default=bcfg["no_default"])
            log("[%s] build %s: rc=%d %.0fs, %d harnesses" % (pid, b, rc, bt, len(hb)))
            if rc != 0:
                # The harnesses of this build cannot be compiled against the current tree (e.g. a change to a private
                # struct they construct).  That is inconclusive for them - but the SMT / native parts of the check do
                # not depend on the harness build and still decide what they can.
                tail = open(os.path.join(ctx["logdir"], "build_%s.log" % b), errors="replace").read()[-4000:]
                log(tail)
                log("INCONCLUSIVE: the mirror crate did not compile for build", b)
                build_failed.append(b)
                continue
            for h in hb:
                mod = module_of(h["file"])
                sub = (h["sub"] + "::") if h.get("sub") else ""
                if file_sub.get(h["file"]):
                    sub = file_sub[h["file"]] + "::" + sub
                full = "%s::verif_h::%s%s" % (mod, sub, h["fn"]) if mod != "lib" else "verif_top::%s%s" % (sub, h["fn"])
                h = dict(h)
                h["full"] = full
                h["build"] = b
                all_jobs.append(dict(harness=full, timeout=h["timeout"], mem_gb=h["mem"], tag=b + "__", h=h, mirror=mdir,
                                     cbmc_extra=(h.get("cbmc") or "").split(),
                                     target_base=tdir, features=bcfg["features"], no_default=bcfg["no_default"],
                                     stubbing=stub))
        # all builds are compiled; their harnesses share one worker pool (longest first)
        all_jobs.sort(key=lambda j: -j["timeout"])

        def show(r):
            h = r["job"]["h"]
            log("[%s] %-10s %-8s %6.1fs checks=%d/%d covers=%d/%d  %s" % (
                pid, h["build"], r["class"], r["wall_s"], r["checks_total"] - r["checks_failed"], r["checks_total"],
                r["covers_sat"], r["covers_total"], h["fn"]))

        if all_jobs:
            res = kani.run_many(None, None, all_jobs, ctx["logdir"], parallel=parallel, on_result=show)
            for r in res:
                r["job"] = {k: v for k, v in r["job"].items() if k not in ("mirror", "target_base")}
                r["h"] = r["job"]["h"]
                results.append(r)
        # ---------------- verdicts ----------------
        violations = []
        smt_violations = []
        inconclusive = ["the harness crate did not compile for build %s: its harnesses were not run" % b for b in build_failed]
        known_lines = []
        for r in results:
            h = r["h"]
            kf = h.get("kf")
            if kf:
                if r["class"] == "fail":
                    known_lines.append("KNOWN-FINDING: property=%s %s [%s] (witness harness %s still fails)" % (
                        pid, known[kf]["what"], kf, h["fn"]))
                    r["known_finding"] = kf
                elif r["class"] == "pass":
                    log("NOTE: known finding %s no longer reproduces (witness harness %s passes)" % (kf, h["fn"]))
                else:
                    inconclusive.append("%s (known-finding witness): %s" % (h["fn"], r["class"]))
                continue
            if r["class"] == "pass":
                continue
            if r["class"] == "fail":
                rep = concrete_playback(ctx, h, h["build"])
                r["replay"] = {k: v for k, v in rep.items() if k != "test_src"}
                os.makedirs(REPLAYS, exist_ok=True)
                rpath = os.path.join(REPLAYS, "%s-%s-%s.json" % (pid, h["build"], h["fn"]))
                case = dict(property=pid, harness=h["fn"], harness_file=os.path.relpath(h["file"], VERIF)
                            if h["file"].startswith(VERIF) else h["file"],
                            build=h["build"], failed_checks=r["failed_checks"][:20], playback_test=rep.get("test_src"),
                            reproduced_natively=rep.get("reproduced"), native_output_tail=rep.get("native_out", "")[-1500:],
                            generated=bool(not h["file"].startswith(VERIF)),
                            generated_source=open(h["file"]).read() if not h["file"].startswith(VERIF) else None,
                            repo_digest=mirror.repo_src_digest())
                with open(rpath, "w") as f:
                    json.dump(case, f, indent=1)
                if rep.get("reproduced"):
                    violations.append((h, rpath, r))
                else:
                    only_ub = all(not c["name"].rsplit(".", 2)[-2].startswith("assertion") for c in r["failed_checks"]) \
                        if r["failed_checks"] else False
                    inconclusive.append("%s: solver counterexample did not reproduce natively%s (case kept at %s)" % (
                        h["fn"], " [only memory-safety/UB checks failed: triage by reading]" if only_ub else "", rpath))
            else:
                inconclusive.append("%s: %s (log %s)" % (h["fn"], r["class"], r["log"]))
        native_violations = []
        for nv in (gen_info or {}).get("native_violations", []):
            os.makedirs(REPLAYS, exist_ok=True)
            import hashlib
            tag = hashlib.sha1(json.dumps(nv, sort_keys=True, default=str).encode()).hexdigest()[:10]
            rpath = os.path.join(REPLAYS, "%s-native-%s.json" % (pid, tag))
            rec = dict(nv)
            rec.update(kind="native", property=pid, repo_digest=mirror.repo_src_digest())
            with open(rpath, "w") as f:
                json.dump(rec, f, indent=1, default=str)
            native_violations.append((nv, rpath))
        smt_info = None
        if smt_proc:
            try:
                smt_proc.wait(timeout=int(os.environ.get("VERIF_SMT_TIMEOUT", "5400")))
            except subprocess.TimeoutExpired:
                smt_proc.kill()
                inconclusive.append("SMT exploration timed out")
            for ln in open(os.path.join(scratch, "smt.log"), errors="replace"):
                if ln.startswith("[smt") and " pass " not in ln and " expensive " not in ln:
                    log(ln.rstrip())
            if os.path.exists(smt_out):
                smt_info = json.load(open(smt_out))
                for r in smt_info["results"]:
                    key = "smt:%s:/%s/%s" % (r["mode"], r["src"], r["flags"])
                    if r["result"] in ("pass", "expensive") and not r.get("kf"):
                        continue
                    kf = [k for k, v in known_all.items() if v.get("what", "").find(key) >= 0]
                    if r.get("kf") and r["kf"] in known:
                        kf = [r["kf"]]
                        if r["result"] == "pass":
                            log("NOTE: known finding %s no longer reproduces (witness case %s passes)" % (r["kf"], r["case"]))
                    if r["result"] in ("pass", "expensive"):
                        continue
                    if r["result"] == "fail":
                        if kf:
                            known_lines.append("KNOWN-FINDING: property=%s %s" % (pid, known_all[kf[0]]["what"]))
                            r["known_finding"] = kf[0]
                            continue
                        os.makedirs(REPLAYS, exist_ok=True)
                        rpath = os.path.join(REPLAYS, "%s-smt-%s-%s.json" % (pid, r["mode"], r["case"]))
                        with open(rpath, "w") as f:
                            json.dump(dict(kind="smt", property=pid, mode=r["mode"], case=r["case"], pattern=r["src"],
                                           flags=r["flags"], haystack=r["cex"]["text"], start=r["cex"]["start"],
                                           model_a=r["cex"]["a"], model_b=r["cex"]["b"], native=r.get("native"),
                                           repo_digest=mirror.repo_src_digest()), f, indent=1, default=str)
                        smt_violations.append((r, rpath))
                    else:
                        inconclusive.append("smt %s %s /%s/%s: %s %s" % (r["mode"], r["case"], r["src"], r["flags"],
                                                                         r["result"], r.get("detail", "")))
            elif not any("SMT" in x for x in inconclusive):
                inconclusive.append("SMT exploration produced no result file (see smt.log in the scratch dir)")
        for ln in known_lines:
            log(ln)
        for nv, rpath in native_violations:
            log("VIOLATION property=%s replay=%s native :: %s" % (pid, rpath, nv.get("what", "")))
        for r, rpath in smt_violations:
            log("VIOLATION property=%s replay=%s smt-mode=%s pattern=/%s/%s haystack=%r start=%d :: %s" % (
                pid, rpath, r["mode"], r["src"], r["flags"], r["cex"]["text"], r["cex"]["start"], r.get("native", "")))
        for h, rpath, r in violations:
            descs = "; ".join(c["desc"] for c in r["failed_checks"][:3])
            log("VIOLATION property=%s replay=%s harness=%s :: %s" % (pid, rpath, h["fn"], descs))
        for s in inconclusive:
            log("INCONCLUSIVE:", s)
        wall = time.time() - t_start
        write_evidence(pid, tier, seed, spec, results, build_info, gen_info, wall, inconclusive,
                       len(violations) + len(smt_violations) + len(native_violations), known_lines, smt_info)
        if keep or ((violations or inconclusive) and os.environ.get("VERIF_KEEP_ON_FAIL")):
            log("scratch kept at", scratch)
            keep = True
        if violations or smt_violations or native_violations:
            return 1
        if inconclusive:
            return 2
        log("[%s] OK: %d harnesses%s, %.0fs" % (pid, len(results), (", %d SMT explorations" % len(smt_info["results"]))
                                                 if smt_info else "", wall))
        return 0
    finally:
        if not keep:
            shutil.rmtree(scratch, ignore_errors=True)


def write_evidence(pid, tier, seed, spec, results, build_info, gen_info, wall, inconclusive, violations, known_lines=(),
                   smt_info=None):
    hs = []
    evaluations = 0
    nontrivial = set()
    solver = 0.0
    symex = 0.0
    funcs = set()
    for r in results:
        h = r["h"]
        evaluations += max(0, r["checks_total"] - r["checks_failed"])
        if r["class"] == "pass" and r["covers_total"] > 0 and r["covers_sat"] == r["covers_total"]:
            for d in r.get("user_assertions", []):
                nontrivial.add((h["build"], h["fn"], "assert", d))
            for d in r.get("sat_covers", []):
                nontrivial.add((h["build"], h["fn"], "cover", d))
        solver += r.get("solver_s") or 0.0
        symex += r.get("symex_s") or 0.0
        for fn in (h.get("funcs") or "").split(","):
            if fn.strip():
                funcs.add(fn.strip())
        hs.append(dict(harness=h["fn"], build=h["build"], result=r["class"], bound=h.get("bound", ""),
                       unwind=h.get("unwind", ""), cbmc_checks=r["checks_total"], cbmc_checks_failed=r["checks_failed"],
                       covers=[r["covers_sat"], r["covers_total"]], symex_s=r.get("symex_s"), solver_s=r.get("solver_s"),
                       vccs=r.get("vccs"), vccs_after_simplification=r.get("vccs_remaining"), wall_s=r["wall_s"],
                       functions=h.get("funcs", ""), assumes=h.get("assumes", ""), stubs=h.get("stubs", ""),
                       known_finding=r.get("known_finding")))
    smt_summary = None
    if smt_info:
        rs = smt_info["results"]
        smt_summary = dict(
            explorations=len(rs), passed=sum(1 for r in rs if r["result"] == "pass"),
            leaves=sum(r.get("leaves", 0) for r in rs), solver_queries=sum(r.get("queries", 0) for r in rs),
            solver_seconds=round(sum(r.get("solver_s", 0) for r in rs), 2), wall_s=smt_info.get("wall_s"),
            engine="z3 %s via lib/symvm.py: path enumeration over bytecode programs dumped from the real "
                   "parser/optimizer/emitter; byte values symbolic, haystack shape (length, UTF-8 widths) enumerated" % "5.1.0",
            cases=[dict(mode=r["mode"], pattern="/%s/%s" % (r["src"], r["flags"]), result=r["result"], leaves=r.get("leaves"),
                        queries=r.get("queries"), shapes=r.get("shapes"), outcomes=r.get("outcomes"),
                        detail=r.get("detail") or r.get("native") or "") for r in rs][:400])
        evaluations += smt_summary["leaves"]
        for r in rs:
            if r["result"] == "pass" and len(r.get("outcomes", [])) == 2:
                nontrivial.add(("smt", r["mode"] + ":" + r["case"]))
        solver += smt_summary["solver_seconds"]
    ev = dict(
        property_id=pid,
        tier=tier,
        seed=seed,
        level="model_checking",
        coverage=dict(
            evaluations=evaluations,
            distinct_nontrivial=len(nontrivial),
            rule="evaluations = CBMC verification conditions (Kani 'checks': user assertions, unwinding assertions, "
                 "pointer/arith/bounds checks) discharged by the SAT solver over all inputs within each harness's stated "
                 "bound, plus (where the check has an SMT part) the leaves of the exhaustive path enumeration, each leaf's "
                 "path condition being a solver-checked set of haystacks on which the compared results are concrete; "
                 "distinct_nontrivial = distinct (build, harness, assertion text) triples for the assertions WRITTEN IN THE "
                 "HARNESS that the solver proved, plus the distinct kani::cover! reachability witnesses it satisfied - "
                 "counted only for harnesses that verified with every witness satisfied (non-vacuous) - plus SMT "
                 "explorations that passed and contain both matching and non-matching leaves.",
            samples=(hs[:400] if hs else (smt_summary["cases"][:50] if smt_summary else [])),
            exhaustive=False,
            engine="Kani 0.68.0 -> CBMC 6.11.0 -> CaDiCaL; encoding regenerated from /repo working tree (digest %s)"
                   % mirror.repo_src_digest(),
            functions_encoded=sorted(funcs),
            builds=build_info,
            generated=gen_info,
            solver_seconds=round(solver, 2),
            symex_seconds=round(symex, 2),
            harnesses_total=len(results),
            harnesses_passed=sum(1 for r in results if r["class"] == "pass"),
            inconclusive=list(inconclusive),
            known_findings=list(known_lines),
            outside_claim=spec.get("outside", ""),
            smt=smt_summary,
        ),
        assumptions=spec.get("assumptions", []),
        wall_s=round(wall, 1),
        violations=violations,
    )
    # VERIF_EVIDENCE_DIR: only for evaluating seeded changes (tools/eval_seed*.sh), so that a run against a
    # deliberately broken tree never overwrites the evidence of /repo itself.
    evdir = os.environ.get("VERIF_EVIDENCE_DIR", os.path.join(VERIF, "evidence"))
    os.makedirs(evdir, exist_ok=True)
    with open(os.path.join(evdir, pid + ".json"), "w") as f:
        json.dump(ev, f, indent=1)


def do_replay(path):
    case = json.load(open(path))
    if case.get("kind") == "native":
        print("native finding (concrete comparison, re-derive with ./check %s): %s" % (case.get("property"), case.get("what")))
        return 1
    if case.get("kind") == "smt":
        return subprocess.call(["python3-vt", os.path.join(VERIF, "lib", "smtcheck.py"), "--replay", path], cwd=VERIF)
    scratch = tempfile.mkdtemp(prefix="verif_replay_")
    try:
        hfile = case["harness_file"]
        if case.get("generated"):
            hfile = os.path.join(scratch, os.path.basename(hfile))
            with open(hfile, "w") as f:
                f.write(case["generated_source"])
        elif not os.path.isabs(hfile):
            hfile = os.path.join(VERIF, hfile)
        h = dict(fn=case["harness"], file=hfile)
        known, _ = load_known()
        ok = True
        for release in (False, True):
            rep = native_playback(scratch, h, case["build"], case["playback_test"], known, release=release)
            log("replay (%s profile): %s" % ("release" if release else "dev",
                                              "REPRODUCED" if rep["reproduced"] else "did not reproduce"))
            if not rep["reproduced"]:
                log(rep["native_out"][-1500:])
                ok = False
        return 1 if ok else 0
    finally:
        shutil.rmtree(scratch, ignore_errors=True)


def main(argv):
    if not argv:
        print(__doc__)
        return 2
    if argv[0] == "replay":
        return do_replay(argv[1])
    if argv[0] == "setup":
        import setup_verif
        return setup_verif.main()
    if argv[0] == "list":
        for h in discover():
            if len(argv) < 2 or argv[1] in h["props"]:
                print("%-40s props=%-12s tier=%-8s builds=%s timeout=%d" % (h["fn"], ",".join(h["props"]), h["tier"],
                                                                            ",".join(h["builds"]), h["timeout"]))
        return 0
    pid = argv[0]
    tier = os.environ.get("VERIF_TIER", "quick")
    only = None
    keep = False
    parallel = None
    i = 1
    while i < len(argv):
        if argv[i] == "--tier":
            tier = argv[i + 1]
            i += 2
        elif argv[i] == "--only":
            only = argv[i + 1]
            i += 2
        elif argv[i] == "--jobs":
            parallel = int(argv[i + 1])
            i += 2
        elif argv[i] == "--keep":
            keep = True
            i += 1
        else:
            print("unknown argument", argv[i])
            return 2
    if tier not in ("quick", "thorough"):
        tier = "quick"
    return run_check(pid, tier, only, keep, parallel)
