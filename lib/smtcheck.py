"""SMT-based checks over bytecode programs dumped from the real compile pipeline (see symvm.py).

Per corpus case and per haystack shape (character count + UTF-8 width pattern) all feasible paths are
enumerated; on every path the compared quantities are concrete, so the comparison is exact, and the path
conditions partition the input space: "no leaf disagrees" = "no haystack of that shape disagrees".

modes:
  C03  program(opt)            == program(no_opt)                 (both through the machine of symvm.py)
  C01  program(opt), (no_opt)  == ES reference matcher (symes.py) on the pattern AST
  C04  program with its derived start predicate == same program with StartPredicate::Arbitrary
Counterexamples are replayed against the real engine through the native dumper before being reported.
Must run under python3-vt (z3).
"""
import itertools
import json
import os
import random
import sys
import time

sys.path.insert(0, os.path.dirname(os.path.abspath(__file__)))
import corpus  # noqa: E402
import symes  # noqa: E402
import symvm  # noqa: E402
from corpus import (Alt, Backref, Cls, Dot, End, Esc, Group, Lit, Look, Opaque, Quant, Rep, Seq, Start, WB, Case)  # noqa: E402

S = Seq
L = Lit


def lits(s):
    return [L(c) for c in s]


def smt_cases():
    """Patterns with choice points and lookarounds (everything the Kani engine fragment cannot run)."""
    c = []

    def add(node, flags, tag, widths=(1, 2), nmax=3, lens=None, ascii_only=False):
        k = Case(node, flags, tag)
        k.widths = widths
        k.nmax = nmax
        k.lens = lens
        k.ascii_only = ascii_only
        c.append(k)

    a, b, x = L("a"), L("b"), L("x")
    # alternation, priority, prefix sharing
    add(S([Alt([a, S([a, b])]), Alt([b, S([])])]), "", "alt_priority")
    add(S([Alt([S(lits("ab")), S(lits("ac"))])]), "", "alt_shared_prefix")
    add(S([Group(Alt([a, S([a, b])])), L("c")]), "", "alt_in_group")
    add(S([Alt([S([Group(a)]), S([Group(b)])]), Backref(1), Backref(2)]), "", "alt_groups_backrefs")
    add(Alt([S([Look(Cls([(ord("a"), ord("z"))])), Quant(Esc("w"), 1, None)]), S([L("#"), Quant(Esc("w"), 1, None)])]), "", "alt_lookahead_arm")
    add(S([Group(Alt([Look(Cls([(ord("a"), ord("z"))])), L("#")]), cap=False), Quant(Esc("w"), 1, None)]), "", "alt_zero_width_arm_then_w")
    add(S([Group(Alt([Look(L("q")), L("z")])), L("q")]), "", "alt_lookahead_or_z_then_q")
    add(S([Group(Alt([Look(L("$"), ahead=False), L("+")]), cap=False), Quant(Esc("d"), 1, None)]), "", "alt_lookbehind_arm_digits")
    add(Alt([S([Group(Alt([Dot(), Quant(Backref(1), 1, 3)])), Cls([ord("s")], neg=True)]), S([])]), "s", "alt_backref_range_or_empty")
    add(S([Group(Alt([Dot(), Quant(Backref(1), 0, 2)])), Backref(1)]), "", "alt_dot_or_backref_loop")
    # a literal that the input type cannot represent is "no match here", never "abort the attempt"
    add(S([Group(Alt([L(0xD800), a]), cap=False), b]), "", "alt_lone_surrogate_or_a")
    add(S([Group(Alt([L(0x101), a]), cap=False), b]), "", "alt_nonascii_literal_or_a", widths=(1,))
    add(S([Look(L(0x20AC), neg=True), a]), "", "neg_lookahead_nonascii_literal", widths=(1,))
    # an optional group that begins with ^ does not anchor the pattern
    add(S([Quant(Group(S([Start(), L("-")]), cap=False), 0, 1), Quant(Esc("d"), 1, None)]), "", "optional_anchored_group_then_digits")
    add(S([Quant(Group(S([Start(), a]), cap=False), 0, None), b]), "", "star_anchored_group_then_b")
    add(S([Quant(Group(S([Start(), Quant(Esc("s"), 1, None)])), 0, 1), L("f")]), "", "optional_anchored_capture_then_f")
    # a loop over a multi-character literal group steps by whole iterations
    add(S([Quant(Group(S(lits("ab")), cap=False), 0, None), b]), "", "star_of_literal_group_then_b", nmax=4, widths=(1,))
    add(S([Quant(Group(S(lits("ab")), cap=False), 0, None, False), b]), "", "lazy_star_of_literal_group_then_b", widths=(1,))
    add(S([Start(), Quant(Group(S([L(0xE9), L("x")]), cap=False), 1, None), L(0xE9)]), "", "plus_of_2char_group_multibyte", widths=(1, 2))
    # class strings under v+i: the case-insensitive lowering of \q{...} members
    add(S([Opaque("[\\q{a\u00e9}]", S([Alt([L("a"), L("A")]), Alt([L(0xE9), L(0xC9)])]))]), "iv", "qstring_latin1_icase", widths=(1, 2, 3), nmax=2)
    add(S([Opaque("[\\q{\u00e9k}]", S([Alt([L(0xE9), L(0xC9)]), Alt([L("k"), L("K"), L(0x212A)])]))]), "iv", "qstring_latin1_kelvin_icase", widths=(1, 2, 3), nmax=2)
    # quantifiers greedy / lazy / ranges
    add(S([Quant(a, 1, None), b]), "", "plus_then_b")
    add(S([Quant(a, 0, None, False), b]), "", "lazy_star_then_b")
    add(S([Quant(Dot(), 0, None), b]), "", "dotstar_b")
    add(S([Quant(Dot(), 0, None, False), b]), "", "dotstar_lazy_b")
    add(S([Quant(a, 1, 2), Quant(a, 0, 1)]), "", "ranges")
    add(S([Quant(a, 0, 1), b]), "", "optional_first_atom")
    add(S([Quant(Group(a), 0, None), Backref(1)]), "", "star_group_backref")
    add(S([Group(S([Quant(a, 1, 2, False), Quant(Backref(1), 0, 1)])), L("c")]), "", "lazy_range_backref", nmax=4, widths=(1,))
    add(S([Quant(Group(Alt([a, S([a, b])])), 2, 2), L("c")]), "", "counted_alt_group", nmax=4, widths=(1,))
    add(S([Start(), Quant(Group(Alt([a, S([a, b])])), 2, 2), End()]), "", "counted_alt_group_anchored", nmax=3, widths=(1,))
    add(S([Quant(Group(S([Quant(a, 0, 1)]), cap=False), 1, 2), b]), "", "nested_optional_loops", nmax=3, widths=(1,))
    add(S([Quant(Group(Quant(a, 0, None), cap=False), 0, None), b]), "", "nested_star_star", nmax=3, widths=(1,))
    add(S([Quant(Group(Alt([a, S([])]), cap=False), 2, 3), b]), "", "loop_with_empty_alternative", nmax=3, widths=(1,))
    add(S([Quant(Group(S([Backref(1), Group(a)]), cap=False), 2, 2)]), "", "rep_capture_reset", nmax=3, widths=(1,))
    add(S([Quant(Group(Dot()), 2, 2), Backref(1)]), "", "rep_group_backref", nmax=3)
    add(S([Quant(Cls([(ord("a"), ord("c"))]), 2, 4), L("d")]), "", "class_range_quant", nmax=4, widths=(1,))
    add(S([Quant(L("é"), 1, None), L("x")]), "", "multibyte_plus", nmax=3, widths=(1, 2))
    add(S([Quant(L(0xD800), 0, None), x]), "", "surrogate_star_x", nmax=2)
    add(S([Quant(L(0x17F), 0, None), x]), "", "long_s_star_x", nmax=2)
    add(S([Quant(L(0x100), 0, 2, False), x]), "", "non_byte_lazy_range_x", nmax=2)
    add(S([Quant(L(0xE9), 1, None), x]), "", "latin1_plus_x", nmax=2)
    add(S([Quant(Cls([(0x100, 0x17F)]), 0, None), x]), "", "non_byte_class_star_x", nmax=2)
    add(S([Alt([L(0x212A), L("k")]), x]), "", "kelvin_or_k")
    add(S([Quant(L("€"), 0, 2, False), L("!")]), "", "lazy_three_byte", nmax=3, widths=(1, 3))
    # lookarounds
    add(S([Look(S([Group(Dot()), Group(Dot())]), ahead=False), Backref(1), Backref(2)]), "", "lookbehind_two_caps", nmax=3)
    add(S([Look(S([Group(Dot(), name="a"), Group(Dot(), name="b")]), ahead=False), L("z")]), "", "lookbehind_named_order", nmax=3)
    add(S([Look(Quant(a, 1, None), ahead=False), b]), "", "lookbehind_plus", nmax=3, widths=(1,))
    add(S([Look(S([Quant(Group(a), 1, None, False)]), ahead=False), b]), "", "lookbehind_lazy_group", nmax=3, widths=(1,))
    add(S([Look(Group(Alt([a, S([a, a])]))), Backref(1), b]), "", "lookahead_atomic", nmax=4, widths=(1,))
    add(S([Look(Cls([]), neg=True), a]), "", "neg_lookahead_empty_class")
    add(S([b, Look(Cls([Esc("s"), Esc("S")], neg=True), ahead=False, neg=True)]), "", "neg_lookbehind_empty_class")
    add(S([Group(Alt([Look(S([a, Cls([])]), neg=True), b]), cap=False), L("c")]), "", "alt_neg_lookahead_fail_body")
    add(S([Look(S([a, Cls([])])), b]), "", "pos_lookahead_fail_body")
    # long literals (16-byte chunking); anchored so that a single attempt is made (an unanchored search
    # over 27 symbolic bytes has ~3^27 distinct failure paths)
    add(S([Start(), Dot(), Look(L("x"), ahead=False)] + lits("abcdefghijklmnopqrstuvwxyz")), "", "long_literal_after_lookbehind",
        nmax=27, lens=[27], widths=(1,))
    add(S([Start(), Look(L("x"))] + lits("xbcdefghijklmnopqrstuvwxyz")), "", "long_literal_after_lookahead",
        nmax=26, lens=[26], widths=(1,))
    add(S([Start(), Quant(Dot(), 20, 20), Look(S(lits("abcdefghijklmnopqrst")), ahead=False), L("!")]), "s",
        "long_literal_in_lookbehind", nmax=21, lens=[21], widths=(1,))
    add(S([Start()] + lits("abcdefghijklmnopqrst") + [Look(L("!"))]), "", "long_literal_then_lookahead", nmax=21, lens=[21],
        widths=(1,))
    add(S([Start(), Group(S(lits("abcdefghijklmnopqrs"))), Backref(1)]), "", "long_literal_group_backref", nmax=38, lens=[38],
        widths=(1,))
    # case-insensitive single characters, classes and class escapes (no icase backreferences here)
    for ch in ["k", "\u212a", "s", "\u017f", "\u0131", "\u03c2", "\u00df", "\u1e9e", "\u0390", "\u1f80", "\ua7ce", "\u01c5"]:
        for f in ["i", "iu", "iv"]:
            add(S([L(ch)]), f, "icase_lit_%04X_%s" % (ord(ch), f), nmax=1, widths=(1, 2, 3))
    for f in ["i", "iu"]:
        add(S([Cls([ord("k")])]), f, "icase_cls_k_" + f, nmax=1, widths=(1, 2, 3))
        add(S([Cls([ord("k")], neg=True)]), f, "icase_negcls_k_" + f, nmax=1, widths=(1, 2, 3))
        add(S([Cls([(ord("a"), ord("z"))])]), f, "icase_range_az_" + f, nmax=1, widths=(1, 2, 3))
        add(S([Cls([Esc("W")])]), f, "icase_cls_W_" + f, nmax=1, widths=(1, 2, 3))
        add(S([Cls([Esc("w")], neg=True)]), f, "icase_negcls_w_" + f, nmax=1, widths=(1, 2, 3))
        add(S([Esc("w")]), f, "icase_esc_w_" + f, nmax=1, widths=(1, 2, 3))
        add(S([Esc("W")]), f, "icase_esc_W_" + f, nmax=1, widths=(1, 2, 3))
        add(S([WB(), Dot()]), f, "icase_wordboundary_" + f, nmax=2, widths=(1, 2, 3))
        add(S([Cls([(0x3B1, 0x3C9)], neg=True)]), f, "icase_neg_greek_" + f, nmax=1, widths=(1, 2, 3))
        add(S([Quant(L("\u017f"), 1, 2), L("t")]), f, "icase_longs_loop_" + f, nmax=3, widths=(1, 2))
    # named groups in every structural position (C16: names in source order, aligned with the slots)
    add(Alt([S([Group(a, name="x")]), S([Group(b, name="y")])]), "", "named_in_alternatives")
    add(Alt([S([Group(a, name="n")]), S([Group(b, name="n")])]), "", "named_duplicate_in_alternatives")
    add(S([Group(S([Group(a, name="inner"), Group(b)]), name="outer"), Group(x, name="last")]), "", "named_nested")
    add(S([Quant(Group(S([Group(a, name="p"), Group(b, name="q")]), cap=False), 1, 2), L("c")]), "", "named_in_loop")
    add(S([Look(S([Group(a, name="ahead1"), Group(b, name="ahead2")])), a]), "", "named_in_lookahead")
    add(S([Look(S([Group(a, name="l1"), Look(S([Group(x, name="l2"), Group(Dot(), name="l3")]), ahead=False), Group(b, name="l4")]), ahead=False), L("c")]), "", "named_nested_lookbehind", nmax=4, widths=(1,))
    add(S([Group(a), Look(S([Group(Dot(), name="m1"), Group(Dot())]), ahead=False, neg=True), Group(b, name="m2")]), "", "named_mixed_neg_lookbehind")
    # anchors and prefilter shapes
    add(S([Start(), Alt([a, b])]), "", "anchored_alt")
    add(Alt([S([Start(), a]), S([Start(), b])]), "", "anchored_each_branch")
    add(Alt([S([Start(), a]), b]), "", "anchored_one_branch")
    add(S([Start(), a]), "m", "multiline_anchor_literal")
    # (/^?a/ is not ECMAScript: only lookaheads are quantifiable under Annex B - the compiler rightly rejects it)
    add(S([Cls([ord("k"), ord("K"), 0x212A]), x]), "", "class_three_lead_bytes")
    add(S([Cls([ord("k")]), x]), "iu", "icase_class_lead_bytes")
    add(S([Cls([ord("a")], neg=True), x]), "", "negated_class_first")
    add(S([Quant(Esc("d"), 0, None), L("-")]), "", "digits_star_dash")
    add(S([Esc("s"), Quant(a, 0, None)]), "", "space_then_star")
    return c


def shapes(case):
    """(n, widths tuple) shapes to explore."""
    lens = case.lens if getattr(case, "lens", None) else list(range(0, case.nmax + 1))
    out = []
    for n in lens:
        ws = case.widths
        if n > 6:
            out.append(tuple([1] * n))
            continue
        for w in itertools.product(ws, repeat=n):
            out.append(w)
    return out


def to_chars(hay, bytes_):
    return bytes(bytes_).decode("utf-8")


def native_result(r):
    if r.get("timeout"):
        return ("TIMEOUT",)
    if r.get("crashed") is not None:
        return ("CRASHED", r.get("crashed"))
    if not r.get("ok"):
        return ("err", r.get("err"))
    if r.get("m") is None:
        return None
    return (r["m"][0], r["m"][1], tuple(None if c is None else tuple(c) for c in r["caps"]))


def safety_violation(dumper, pat, flags, text, start):
    """C06 on one concrete input: every real entry point (backtracker optimised / unoptimised, PikeVM, the ASCII
    variants on ASCII text) must return - no panic, abort or time-out in the helper process - and every reported
    range (match and captures) must satisfy start <= end <= len with both ends on char boundaries.  Returns a
    description of the first violation or None."""
    bounds = set()
    o = 0
    for ch in text:
        bounds.add(o)
        o += len(ch.encode("utf-8"))
    bounds.add(o)
    calls = [("find opt", lambda: dumper.find(pat, flags, False, text, start)),
             ("find no_opt", lambda: dumper.find(pat, flags, True, text, start)),
             ("pikevm", lambda: dumper.find_pike(pat, flags, False, text, start))]
    if all(ord(ch) < 0x80 for ch in text):
        calls += [("find_ascii", lambda: dumper.find_ascii(pat, flags, False, text, start)),
                  ("pikevm ascii", lambda: dumper.find_pike(pat, flags, False, text, start, ascii=True))]
    for name, call in calls:
        r = call()
        if r.get("crashed") is not None:
            return "%s: the engine panicked / aborted (helper exit status %s)" % (name, r.get("crashed"))
        if r.get("timeout") or not r.get("ok") or r.get("m") is None:
            continue
        rngs = [tuple(r["m"])] + [tuple(c) for c in r["caps"] if c is not None]
        for (a, b) in rngs:
            if not (0 <= a <= b <= o) or a not in bounds or b not in bounds:
                return "%s: reported range %d..%d is not a valid char-boundary range of the %d-byte haystack" % (name, a, b, o)
    return None



STEP_LIMIT = 4000
STEP_LIMIT_C05 = 60000   # C05 mode: far above what any terminating search needs on <= 3 characters


def run_mode(mode, case, progs, dumper, rng, budget_paths=20000, log=print):
    """Returns dict(result=pass/fail/inconclusive, leaves, queries, solver_s, shapes, cex=...)."""
    out = dict(case=case.tag, src=case.src, flags=case.flags, mode=mode, leaves=0, queries=0, solver_s=0.0, shapes=0,
               outcomes=set(), result="pass", detail="")
    pat = [ord(ch) for ch in case.src]

    limit = STEP_LIMIT_C05 if mode == "C05" else STEP_LIMIT

    def vm_run(prog, hy, ctx, s0, **kw):
        vm = symvm.VM(prog, hy, ctx, step_limit=limit, **kw)
        try:
            r = vm.find_from(hy.off[s0])
        except symvm.StepLimit:
            r = ("STEPLIMIT",)
        out["max_steps"] = max(out.get("max_steps", 0), vm.steps)
        out["max_bts"] = max(out.get("max_bts", 0), vm.max_bts)
        return r

    def compute(ctx, hy, s0):
        res = {}
        if mode == "C05":
            res["a"] = vm_run(progs["opt"], hy, ctx, s0)
            if res["a"] == ("STEPLIMIT",):
                res["b"] = "halts"
                return res
            res["a"] = vm_run(progs["noopt"], hy, ctx, s0)
            res["b"] = "halts" if res["a"] == ("STEPLIMIT",) else res["a"]
            return res
        if mode == "C02":
            # one representative haystack per behaviour class (path) of the backtracking machine, on which the
            # REAL backtracking executor and the REAL PikeVM executor are compared
            res["vm"] = vm_run(progs["opt"], hy, ctx, s0)
            m = ctx.model()
            text = to_chars(hy, hy.model_bytes(m))
            res["a"] = native_result(dumper.find(pat, case.flags, False, text, hy.off[s0]))
            res["b"] = native_result(dumper.find_pike(pat, case.flags, False, text, hy.off[s0]))
            if res["a"] == res["b"] and all(w == 1 for w in hy.widths):
                res["a"] = native_result(dumper.find_ascii(pat, case.flags, False, text, hy.off[s0]))
                res["b"] = native_result(dumper.find_pike(pat, case.flags, False, text, hy.off[s0], ascii=True))
            out["witnesses"] = out.get("witnesses", 0) + 1
            return res
        if mode == "C06":
            # one representative haystack per behaviour class (path) of the machine; the REAL engines are run on it
            res["vm"] = vm_run(progs["opt"], hy, ctx, s0)
            m = ctx.model()
            text = to_chars(hy, hy.model_bytes(m))
            v = safety_violation(dumper, pat, case.flags, text, hy.off[s0])
            res["a"], res["b"] = (("UNSAFE", v), None) if v else (None, None)
            out["witnesses"] = out.get("witnesses", 0) + 1
            return res
        if mode == "C09":
            # one representative haystack per behaviour class (path) of the machine's first-match search; on it the
            # REAL iterators must yield the lastIndex unfolding of fresh first-match searches (state carried from
            # one match to the next inside an iterator is invisible to a first-match comparison)
            res["vm"] = vm_run(progs["opt"], hy, ctx, s0)
            m = ctx.model()
            text = to_chars(hy, hy.model_bytes(m))
            engines = ["bt", "pike"] + (["bta", "pikea"] if all(w == 1 for w in hy.widths) else [])
            res["a"], res["b"] = None, None
            for eng in engines:
                for no in (False, True):
                    r = dumper.iter_consistency(pat, case.flags, no, text, hy.off[s0], eng)
                    if r.get("timeout") or r.get("crashed") is not None:
                        res["a"], res["b"] = ("TIMEOUT" if r.get("timeout") else "CRASH", eng, no), None
                        break
                    if r.get("ok") and r.get("same") is False:
                        res["a"], res["b"] = ("iter", eng, no, json.dumps(r["a"])), ("fresh", eng, no, json.dumps(r["b"]))
                        break
                if res["a"] != res["b"]:
                    break
            out["witnesses"] = out.get("witnesses", 0) + 1
            return res
        if mode in ("C13", "C13n"):
            which = "opt" if mode == "C13" else "noopt"
            res["a"] = vm_run(progs[which], hy, ctx, s0, ascii=True)
            res["b"] = vm_run(progs[which], hy, ctx, s0)
            return res
        if mode == "C03":
            res["a"] = symvm.VM(progs["opt"], hy, ctx).find_from(hy.off[s0])
            res["b"] = symvm.VM(progs["noopt"], hy, ctx).find_from(hy.off[s0])
        elif mode == "C01":
            res["a"] = symvm.VM(progs["opt"], hy, ctx).find_from(hy.off[s0])
            res["b"] = symes.ES(case, hy, ctx).find_from(s0)
        elif mode == "C01n":
            res["a"] = symvm.VM(progs["noopt"], hy, ctx).find_from(hy.off[s0])
            res["b"] = symes.ES(case, hy, ctx).find_from(s0)
        elif mode == "C04":
            res["a"] = symvm.VM(progs["opt"], hy, ctx).find_from(hy.off[s0], use_pred=True)
            res["b"] = symvm.VM(progs["opt"], hy, ctx).find_from(hy.off[s0], use_pred=False)
        return res

    # ---- translator validation: the machine vs the real engine on concrete haystacks ----
    alpha = case.interesting_cps()[:10]
    for _ in range(40):
        n = rng.randint(0, min(case.nmax, 6))
        if getattr(case, "lens", None):
            n = rng.choice(case.lens)
            cps = [ord(ch) for ch in expected_text(case)][:n] if rng.random() < 0.5 else [rng.choice(alpha) for _ in range(n)]
        else:
            cps = [rng.choice(alpha) for _ in range(n)]
        n = len(cps)
        text = "".join(chr(x) for x in cps)
        bts = list(text.encode("utf-8"))
        widths = [len(chr(x).encode("utf-8")) for x in cps]
        hy = symvm.Hay(widths, concrete=bts)
        ex = symvm.Explorer([])
        for which, no_opt in (("opt", False), ("noopt", True)):
            for s0 in range(0, n + 1):
                try:
                    leaves = list(ex.explore(lambda ctx: symvm.VM(progs[which], hy, ctx, step_limit=limit).find_from(hy.off[s0])))
                    got = leaves[0][1]
                except symvm.StepLimit:
                    got = ("TIMEOUT",)
                except symvm.ModelError as e:
                    out["result"] = "inconclusive"
                    out["detail"] = "machine cannot run %s concretely: %s" % (which, e)
                    return out
                real = native_result(dumper.find(pat, case.flags, no_opt, text, hy.off[s0]))
                if got == ("TIMEOUT",) and real == ("TIMEOUT",):
                    # the machine loops forever and so does the real engine on this concrete input
                    if mode == "C05":
                        out["result"] = "fail"
                        out["cex"] = dict(text=text, start=hy.off[s0], a=("STEPLIMIT",), b="halts", widths=widths)
                    else:
                        out["result"] = "inconclusive"
                        out["detail"] = ("the real engine does not terminate on %r from %d (%s); termination is C05's "
                                         "subject, this case is skipped here" % (text, hy.off[s0], which))
                    return out
                if got == ("TIMEOUT",) and real != ("TIMEOUT",):
                    # exponential but finite search: beyond the machine's step budget, fine for the real engine
                    out["result"] = "expensive"
                    out["detail"] = ("search on %r needs more than %d machine steps but the real engine answers within "
                                     "the native time limit: exponential, not divergent; case skipped" % (text, limit))
                    return out
                if got != real:
                    # Either the transcription is out of date, or the REAL engine misbehaves on this concrete
                    # input.  Decide it against the real code alone (no machine involved): if the property's own
                    # native comparison fails on this input it is a violation, found by a concrete validation run
                    # rather than by the solver (recorded as such).
                    vmode = "C01n" if (mode in ("C01", "C01n") and which == "noopt") else ("C01" if mode == "C01n" else mode)
                    cex = dict(text=text, start=hy.off[s0], a=real, b=got, widths=widths,
                               found_by="translator validation (concrete run, not a solver counterexample)")
                    if mode != "C05" and confirm_native(vmode, case, cex, dumper)[0]:
                        out["result"] = "fail"
                        out["mode_override"] = vmode
                        out["cex"] = cex
                        return out
                    out["result"] = "inconclusive"
                    out["detail"] = ("bytecode machine (lib/symvm.py) disagrees with the real executor on %r start %d "
                                     "(%s): machine %r, real %r - the transcription is out of date or wrong"
                                     % (text, hy.off[s0], which, got, real))
                    return out
    if mode in ("C13", "C13n"):
        which13, noopt13 = ("opt", False) if mode == "C13" else ("noopt", True)
        # translator validation of the ASCII variant of the machine against find_from_ascii
        for _ in range(40):
            n = rng.randint(0, min(case.nmax, 4))
            cps = [rng.choice([c for c in alpha if c < 0x80] or [0x61]) for _ in range(n)]
            text = "".join(chr(x) for x in cps)
            hy = symvm.Hay([1] * n, concrete=list(text.encode()))
            ex = symvm.Explorer([])
            for s0 in range(0, n + 1):
                try:
                    got = list(ex.explore(lambda ctx: symvm.VM(progs[which13], hy, ctx, step_limit=STEP_LIMIT, ascii=True).find_from(hy.off[s0])))[0][1]
                except symvm.StepLimit:
                    got = ("TIMEOUT",)
                except symvm.ModelError as e:
                    out["result"] = "inconclusive"
                    out["detail"] = "machine (ascii) cannot run concretely: %s" % e
                    return out
                real = native_result(dumper.find_ascii(pat, case.flags, noopt13, text, hy.off[s0]))
                if got != real:
                    cex = dict(text=text, start=hy.off[s0], a=real, b=got, widths=[1] * n,
                               found_by="translator validation (concrete run, not a solver counterexample)")
                    if confirm_native(mode, case, cex, dumper)[0]:
                        out["result"] = "fail"
                        out["cex"] = cex
                        return out
                    out["result"] = "inconclusive"
                    out["detail"] = ("bytecode machine in ASCII mode disagrees with find_from_ascii on %r start %d: machine "
                                     "%r, real %r" % (text, s0, got, real))
                    return out
    # ---- exhaustive symbolic exploration per shape ----
    for widths in shapes(case):
        if mode in ("C13", "C13n") and any(w != 1 for w in widths):
            continue
        hy = symvm.Hay(widths)
        n = len(widths)
        for s0 in range(0, n + 1):
            ex = symvm.Explorer(hy.cons, max_paths=budget_paths)
            try:
                for ctx, res in ex.explore(lambda ctx: compute(ctx, hy, s0)):
                    out["leaves"] += 1
                    out["outcomes"].add("match" if res["a"] is not None else "nomatch")
                    if res["a"] != res["b"]:
                        m = ctx.model()
                        bts = hy.model_bytes(m)
                        text = to_chars(hy, bts)
                        out["result"] = "fail"
                        out["cex"] = dict(text=text, start=hy.off[s0], a=res["a"], b=res["b"], widths=list(widths))
                        out["queries"] += ex.queries
                        out["solver_s"] += ex.solver_time
                        return out
            except symvm.StepLimit as e:
                out["result"] = "steplimit"
                out["detail"] = "%s (shape %s start %d)" % (e, widths, s0)
                out["queries"] += ex.queries
                out["solver_s"] += ex.solver_time
                return out
            except symvm.ModelError as e:
                out["result"] = "inconclusive"
                out["detail"] = "%s (shape %s start %d)" % (e, widths, s0)
                return out
            out["queries"] += ex.queries
            out["solver_s"] += ex.solver_time
        out["shapes"] += 1
    return out


def expected_text(case):
    """A haystack that the pattern obviously matches when it is a sequence of literals (used to seed
    validation for long-literal cases)."""
    out = []

    def walk(nd):
        if isinstance(nd, Lit):
            out.append(chr(nd.c))
        elif isinstance(nd, (Group, Look)):
            walk(nd.body)
        elif isinstance(nd, Seq):
            for i in nd.items:
                walk(i)

    walk(case.node)
    return "".join(out)


def confirm_native(mode, case, cex, dumper):
    """Replay a solver counterexample against the real engine.  Returns (reproduced, description)."""
    pat = [ord(ch) for ch in case.src]
    text, start = cex["text"], cex["start"]
    opt = native_result(dumper.find(pat, case.flags, False, text, start))
    noopt = native_result(dumper.find(pat, case.flags, True, text, start))
    if mode == "C03":
        return opt != noopt, "optimised %r vs no_opt %r" % (opt, noopt)
    if mode in ("C01", "C01n"):
        # expected value = ES reference on the concrete haystack
        widths = [len(ch.encode("utf-8")) for ch in text]
        hy = symvm.Hay(widths, concrete=list(text.encode("utf-8")))
        ex = symvm.Explorer([])
        s0 = hy.idx_at[start]
        want = list(ex.explore(lambda ctx: symes.ES(case, hy, ctx).find_from(s0)))[0][1]
        got = opt if mode == "C01" else noopt
        return got != want, "engine %r vs ECMAScript semantics %r" % (got, want)
    if mode == "C04":
        nopred = native_result(dumper.find_nopred(pat, case.flags, False, text, start))
        return opt != nopred, "with derived prefilter %r vs every-offset search %r" % (opt, nopred)
    if mode == "C05":
        hang = opt == ("TIMEOUT",) or noopt == ("TIMEOUT",)
        return hang, "real engine: optimised %r, no_opt %r (TIMEOUT = no answer within 8 s)" % (opt, noopt)
    if mode in ("C13", "C13n"):
        no = mode == "C13n"
        asc = native_result(dumper.find_ascii(pat, case.flags, no, text, start))
        ref = noopt if no else opt
        return asc != ref, "find_from_ascii %r vs find_from %r%s" % (asc, ref, " (no_opt)" if no else "")
    if mode == "C06":
        v = safety_violation(dumper, pat, case.flags, text, start)
        return v is not None, v or "every entry point returns valid char-boundary ranges"
    if mode == "C09":
        engines = ["bt", "pike"] + (["bta", "pikea"] if all(ord(ch) < 0x80 for ch in text) else [])
        for eng in engines:
            for no in (False, True):
                r = dumper.iter_consistency(pat, case.flags, no, text, start, eng)
                if r.get("ok") and r.get("same") is False:
                    return True, "one iterator (%s%s) yields %s but fresh first-match searches along the lastIndex cursor yield %s" % (
                        eng, ", no_opt" if no else "", json.dumps(r["a"]), json.dumps(r["b"]))
        return False, "iterators agree with the lastIndex unfolding"
    if mode == "C02":
        pk = native_result(dumper.find_pike(pat, case.flags, False, text, start))
        if opt != pk:
            return True, "backtracking executor %r vs PikeVM executor %r" % (opt, pk)
        if all(ord(ch) < 0x80 for ch in text):
            a = native_result(dumper.find_ascii(pat, case.flags, False, text, start))
            b = native_result(dumper.find_pike(pat, case.flags, False, text, start, ascii=True))
            return a != b, "ASCII mode: backtracking executor %r vs PikeVM executor %r" % (a, b)
        return False, "executors agree"
    if mode.startswith("names-"):
        r = dumper.dump(pat, case.flags, mode.endswith("noopt"))
        got = r["prog"]["group_names"] if r.get("ok") else None
        return got != case.names, "CompiledRegex.group_names %r vs groups in source order %r" % (got, case.names)
    return False, ""


def replay(path):
    """./check replay for an SMT counterexample: re-run the stored haystack against the real engine
    (current /repo tree) and report whether the disagreement is still there.  Exit 1 = reproduced."""
    import native
    import tempfile
    import shutil
    rec = json.load(open(path))
    if rec["case"].startswith("cls_"):
        import classgen
        _EXTRA.extend(classgen.cases(int(rec.get("seed", 0)), 500))
    if rec["case"].startswith("rnd_"):
        _EXTRA.extend(random_cases(int(rec["case"].split("_")[1]), 80))
    case = [c for c in all_cases() if c.tag == rec["case"]]
    if not case:
        print("unknown corpus case", rec["case"])
        return 2
    case = case[0]
    scratch = tempfile.mkdtemp(prefix="verif_smtreplay_")
    try:
        d = native.Dumper(scratch, tag="replay")
        ok, desc = confirm_native(rec["mode"], case, dict(text=rec["haystack"], start=rec["start"]), d)
        d.close()
    finally:
        shutil.rmtree(scratch, ignore_errors=True)
    print("replay /%s/%s on %r from %d: %s -> %s" % (case.src, case.flags, rec["haystack"], rec["start"], desc,
                                                      "REPRODUCED" if ok else "did not reproduce"))
    return 1 if ok else 0


def nested_quant_cases():
    """C05 family: every combination of an (often empty-matching) inner atom, an inner and an outer
    quantifier, followed by a literal; plus the same inside a lookbehind for a subset."""
    a = L("a")
    inners = [
        ("opt", lambda: Quant(a, 0, 1)), ("star", lambda: Quant(a, 0, None)), ("lazystar", lambda: Quant(a, 0, None, False)),
        ("altempty", lambda: Group(Alt([a, S([])]), cap=False)), ("empty", lambda: Group(S([]), cap=False)),
        ("wb", lambda: WB()), ("capopt", lambda: Quant(Group(a), 0, 1)), ("lookahead", lambda: Look(a)),
    ]
    quants = [("1", 1, 1, True), ("2", 2, 2, True), ("01", 0, 1, True), ("star", 0, None, True), ("plus", 1, None, True),
              ("12lazy", 1, 2, False), ("2inf_lazy", 2, None, False)]
    out = []
    for iname, mk in inners:
        for qn1, mn1, mx1, g1 in quants:
            for qn2, mn2, mx2, g2 in quants:
                inner = Quant(Group(mk(), cap=False), mn1, mx1, g1)
                outer = Quant(Group(inner, cap=False), mn2, mx2, g2)
                k = Case(S([outer, L("b")]), "", "nq_%s_%s_%s" % (iname, qn1, qn2))
                k.widths, k.nmax, k.lens, k.ascii_only = (1,), 3, None, False
                out.append(k)
    # loops inside a lookaround inside a loop (loop state of the inner attempt vs the enclosing loop)
    b, c, d, x = L("b"), L("c"), L("d"), L("x")
    for tag, node, nmax in [
        ("la_inner_star", Quant(Group(Look(S([b, Quant(Group(S([c, d]), cap=False), 0, None)])), cap=False), 0, None), 3),
        ("la_inner_star_lazy_outer", S([Quant(Group(Look(S([b, Quant(Group(S([c, d]), cap=False), 0, None)])), cap=False), 0, None, False), c]), 3),
        ("lb_inner_star", S([x, Quant(Group(Look(S([Quant(Group(S([c, d]), cap=False), 0, None), x]), ahead=False), cap=False), 0, None), End()]), 5),
        ("la_inner_plus_cap", Quant(Group(S([Look(Quant(Group(S([L("a"), b])), 1, None)), Quant(L("a"), 0, 1)]), cap=False), 1, 3), 4),
        ("neg_la_inner_range", S([Quant(Group(Look(Quant(Group(S([L("a"), b]), cap=False), 1, 2), neg=True), cap=False), 0, None), L("a")]), 3),
        ("sibling_loops", S([Quant(Group(S([L("a"), b]), cap=False), 0, None), Quant(Group(S([c, d]), cap=False), 0, None), x]), 5),
        ("sibling_in_outer", Quant(Group(S([Quant(Group(S([L("a"), b]), cap=False), 0, 1), Quant(Group(S([c, d]), cap=False), 0, 1)]), cap=False), 0, None), 4),
    ]:
        k = Case(node if isinstance(node, Seq) else S([node]), "", "nqla_" + tag)
        k.widths, k.nmax, k.lens, k.ascii_only = (1,), nmax, None, False
        out.append(k)
    for iname, mk in inners[:4]:
        for qn1, mn1, mx1, g1 in quants[2:6]:
            inner = Quant(Group(mk(), cap=False), mn1, mx1, g1)
            outer = Quant(Group(inner, cap=False), 1, 2, True)
            k = Case(S([Look(outer, ahead=False), L("b")]), "", "nqlb_%s_%s" % (iname, qn1))
            k.widths, k.nmax, k.lens, k.ascii_only = (1,), 3, None, False
            out.append(k)
    return out


def random_cases(seed, count):
    """Seeded random patterns over a small grammar with choice points (breadth beyond the hand-written corpus)."""
    rng = random.Random(seed)
    atoms = [lambda: L("a"), lambda: L("b"), lambda: L("é"), lambda: Dot(), lambda: Cls([(ord("a"), ord("b"))]),
             lambda: Cls([ord("a")], neg=True), lambda: Esc("w"), lambda: Esc("d"), lambda: Start(), lambda: End(),
             lambda: WB(), lambda: WB(True)]

    def gen(depth, ngroups):
        r = rng.random()
        if depth <= 0 or r < 0.35:
            if ngroups[0] > 0 and rng.random() < 0.15:
                return Backref(rng.randint(1, ngroups[0]))
            return rng.choice(atoms)()
        if r < 0.55:
            return S([gen(depth - 1, ngroups) for _ in range(rng.randint(2, 3))])
        if r < 0.68:
            return Group(Alt([gen(depth - 1, ngroups) for _ in range(2)]), cap=False)
        if r < 0.80:
            body = gen(depth - 1, ngroups)
            if isinstance(body, (Start, End, WB, Look, Quant)):
                body = Group(body, cap=False)
            mn, mx = rng.choice([(0, 1), (0, None), (1, None), (1, 2), (2, 2), (0, 2)])
            return Quant(body, mn, mx, rng.random() < 0.7)
        if r < 0.92:
            ngroups[0] += 1
            return Group(gen(depth - 1, ngroups))
        return Look(gen(depth - 1, ngroups), ahead=rng.random() < 0.5, neg=rng.random() < 0.4)

    out = []
    tries = 0
    while len(out) < count and tries < count * 20:
        tries += 1
        ng = [0]
        node = gen(3, ng)
        # group numbering for backrefs must refer to existing groups: re-number and validate
        try:
            k = Case(node if isinstance(node, Seq) else S([node]), rng.choice(["", "", "m", "s"]), "rnd_%d_%d" % (seed, len(out)))
        except Exception:
            continue
        ok = True

        def walk(nd):
            nonlocal ok
            if isinstance(nd, Backref) and nd.k > k.ngroups:
                ok = False
            if isinstance(nd, (Group, Look, Quant, Rep)):
                walk(nd.body)
            if isinstance(nd, (Seq, Alt)):
                for i in nd.items:
                    walk(i)

        walk(k.node)
        if not ok or len(k.src) > 40:
            continue
        k.widths, k.nmax, k.lens, k.ascii_only = (1, 2), 3, None, False
        out.append(k)
    return out


def iteration_cases():
    """Patterns whose SECOND and later matches depend on interpreter state (loop counters, captures, the backtrack
    stack) being fresh: counted general loops, captures in loops, lookarounds - over haystacks long enough for
    several matches."""
    c = []

    def add(node, flags, tag, nmax=4, widths=(1,)):
        k = Case(node, flags, tag)
        k.widths, k.nmax, k.lens, k.ascii_only = widths, nmax, None, False
        c.append(k)

    a, b, cc = L("a"), L("b"), L("c")
    add(Quant(Group(Alt([S([a, b]), cc]), cap=False), 1, 2), "", "it_counted_alt_1_2")
    add(Quant(Group(Alt([S([a, b]), cc]), cap=False), 2, 3), "", "it_counted_alt_2_3", nmax=5)
    add(Rep(Group(S([Esc("w"), Esc("d")])), 2), "", "it_rep_capture_2", nmax=5)
    add(S([Quant(Group(a), 0, 1), b]), "", "it_optional_capture_then_b")
    add(S([Quant(Group(Alt([a, S([])])), 1, 2), b]), "", "it_capture_or_empty_1_2_b")
    add(S([Look(Group(a)), Quant(Dot(), 1, 2, False)]), "", "it_lookahead_capture_lazy")
    add(S([Group(Quant(a, 0, None)), Look(b, ahead=False, neg=True)]), "", "it_star_capture_neg_lookbehind")
    add(S([Quant(Group(S([a, Quant(b, 0, 1)]), cap=False), 1, 2), WB()]), "", "it_counted_wb")
    return c


_EXTRA = []


def all_cases():
    return smt_cases() + nested_quant_cases() + iteration_cases() + _EXTRA


def main(argv):
    import native
    if argv[0] == "--replay":
        return replay(argv[1])
    mode_prop = argv[0]          # C01 / C03 / C04
    tier = argv[1]
    seed = int(argv[2])
    scratch = argv[3]
    outpath = argv[4]
    rng = random.Random(seed)
    if mode_prop == "C10":
        cases = [c for c in smt_cases() if c.tag.startswith("icase")]
    elif mode_prop == "C12":
        import classgen
        cases = classgen.cases(seed, 40 if tier == "quick" else 500)
        _EXTRA.extend(cases)
    elif mode_prop == "C09":
        cases = iteration_cases() + [c for i, c in enumerate(smt_cases()) if tier != "quick" or (i + seed) % 5 == 0]
    elif mode_prop == "C05":
        cases = nested_quant_cases()
        if tier == "quick":
            cases = [c for i, c in enumerate(cases) if (i + seed) % 6 == 0 or c.tag in ("nq_opt_1_2",) or c.tag.startswith("nqla_")]
    else:
        cases = smt_cases() + random_cases(seed, 12 if tier == "quick" else 80)
        _EXTRA.extend(cases[len(smt_cases()):])
        if mode_prop == "C16":
            cases = [c for c in cases if any(c.names)]
    d = native.Dumper(scratch, tag="smt")
    results = []
    t0 = time.time()
    try:
        for case in cases:
            progs = {}
            rej = None
            for which, no_opt in (("opt", False), ("noopt", True)):
                r = d.dump([ord(ch) for ch in case.src], case.flags, no_opt)
                if not r["ok"]:
                    rej = r.get("err")
                else:
                    progs[which] = r["prog"]
            if rej is not None or len(progs) != 2:
                results.append(dict(case=case.tag, src=case.src, flags=case.flags, mode=mode_prop, result="inconclusive",
                                    detail="pattern rejected by the compiler: %s" % rej, leaves=0, queries=0, solver_s=0,
                                    shapes=0, outcomes=[]))
                continue
            modes = {"C01": ["C01", "C01n"], "C12": ["C01", "C01n"], "C10": ["C01", "C01n"], "C03": ["C03"], "C04": ["C04"], "C05": ["C05"], "C13": ["C13", "C13n"], "C16": [], "C02": ["C02"], "C09": ["C09"], "C06": ["C06"]}[mode_prop]
            if mode_prop in ("C01", "C16") and any(case.names):
                # C16: group names reported in source order, aligned with the capture slots (compile-side fact)
                for which in ("opt", "noopt"):
                    got = progs[which]["group_names"]
                    ok = got == case.names
                    rr = dict(case=case.tag, src=case.src, flags=case.flags, mode="names-" + which, leaves=1, queries=0,
                              solver_s=0, shapes=0, outcomes=["match", "nomatch"], result="pass" if ok else "fail",
                              detail="", wall_s=0)
                    if not ok:
                        rr["cex"] = dict(text="", start=0, a=got, b=case.names)
                        rr["reproduced"] = True
                        rr["native"] = "CompiledRegex.group_names %r vs groups in source order %r" % (got, case.names)
                    results.append(rr)
                    print("[smt names] %-10s %-34s /%s/%s %s" % (rr["result"], case.tag, case.src, case.flags, rr.get("native", "")), flush=True)
            if mode_prop == "C16":
                continue
            for mode in modes:
                t1 = time.time()
                r = run_mode(mode, case, progs, d, rng)
                r["outcomes"] = sorted(r["outcomes"])
                r["wall_s"] = round(time.time() - t1, 2)
                if getattr(case, "kf", None):
                    r["kf"] = case.kf
                if r["result"] == "fail":
                    ok, desc = confirm_native(r.get("mode_override", mode), case, r["cex"], d)
                    if r["cex"].get("found_by"):
                        desc += " [" + r["cex"]["found_by"] + "]"
                    r["reproduced"] = ok
                    r["native"] = desc
                    if not ok and mode == "C05":
                        r["result"] = "expensive"
                        r["detail"] = ("more than %d machine steps on %r, but the real engine answers within the native time "
                                       "limit: exponential, not divergent" % (STEP_LIMIT_C05, r["cex"]["text"]))
                    elif not ok:
                        r["result"] = "inconclusive"
                        r["detail"] = "solver counterexample did not reproduce natively: " + desc
                print("[smt %s] %-10s %-34s /%s/%s leaves=%d queries=%d %.1fs %s" % (
                    mode, r["result"], case.tag, case.src if len(case.src) < 40 else case.src[:37] + "...", case.flags,
                    r["leaves"], r["queries"], r["wall_s"], r.get("detail", "") or r.get("native", "")), flush=True)
                results.append(r)
    finally:
        d.close()
    with open(outpath, "w") as f:
        json.dump(dict(results=results, wall_s=round(time.time() - t0, 1)), f, indent=1, default=str)
    return 0


QUICK = {}

if __name__ == "__main__":
    sys.exit(main(sys.argv[1:]))
