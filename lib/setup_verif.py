"""./check setup: offline sanity of the tool chain and regeneration of the oracle tables."""
import glob
import os
import subprocess
import sys

VERIF = os.path.dirname(os.path.dirname(os.path.abspath(__file__)))


def main():
    env = dict(os.environ)
    env["CARGO_NET_OFFLINE"] = "true"
    tabs = glob.glob(os.path.expanduser("~/.cargo/registry/src/*/regex-syntax-0.8.11/src/unicode_tables"))
    if not tabs:
        print("setup: regex-syntax 0.8.11 not found in the cargo registry; keeping the committed oracle tables")
    else:
        env["RS_TABLES"] = tabs[0]
        out = os.path.join(VERIF, "oracle")
        env["CARGO_TARGET_DIR"] = os.path.join(VERIF, "native", "oraclegen", "target")
        p = subprocess.run(["cargo", "run", "--release", "--offline", "-q", "--", out],
                           cwd=os.path.join(VERIF, "native", "oraclegen"), env=env)
        if p.returncode != 0:
            print("setup: oraclegen failed")
            return 1
    p = subprocess.run(["cargo", "kani", "--version"], env=env, stdout=subprocess.PIPE, stderr=subprocess.STDOUT)
    print(p.stdout.decode().strip())
    if p.returncode != 0:
        return 1
    print("setup: ok")
    return 0
