"""Native side: builds the mirror crate (plain cargo, cfg verif_native) with the dump module and a tiny
driver binary, and talks to it over a pipe.  Used to (1) obtain the compiled programs of corpus patterns
from the REAL parser/optimizer/emitter of the current /repo tree and (2) validate generated oracles on
concrete inputs before any solver run."""
import json
import os
import subprocess

import mirror

VERIF = mirror.VERIF


class Dumper:
    def __init__(self, scratch, features=(), no_default=False, tag="default"):
        self.dir = os.path.join(scratch, "native_" + tag)
        mdir = os.path.join(self.dir, "mirror")
        mirror.make_mirror(mdir, {}, cfg="verif_native", top_mod=os.path.join(VERIF, "harness", "native_dump.rs"))
        ddir = os.path.join(self.dir, "dumper")
        os.makedirs(os.path.join(ddir, "src"), exist_ok=True)
        feats = ", ".join('"%s"' % f for f in features)
        with open(os.path.join(ddir, "Cargo.toml"), "w") as f:
            f.write(
                '[package]\nname = "dumper"\nversion = "0.1.0"\nedition = "2021"\n\n[dependencies]\n'
                'regress = { path = "../mirror", default-features = %s, features = [%s] }\n\n[workspace]\n\n'
                '[profile.dev]\nopt-level = 1\ndebug = false\n' % ("false" if no_default else "true", feats)
            )
        with open(os.path.join(VERIF, "native", "dumper", "src", "main.rs")) as f:
            src = f.read()
        with open(os.path.join(ddir, "src", "main.rs"), "w") as f:
            f.write(src)
        env = dict(os.environ)
        env["CARGO_NET_OFFLINE"] = "true"
        env["RUSTFLAGS"] = "--cfg verif_native"
        env["CARGO_TARGET_DIR"] = os.path.join(self.dir, "target")
        p = subprocess.run(["cargo", "build", "--offline", "-q"], cwd=ddir, env=env, stdout=subprocess.PIPE,
                           stderr=subprocess.STDOUT)
        if p.returncode != 0:
            raise RuntimeError("native dumper build failed:\n" + p.stdout.decode(errors="replace")[-4000:])
        self._spawn()

    def _spawn(self):
        self.proc = subprocess.Popen([os.path.join(self.dir, "target", "debug", "dumper")], stdin=subprocess.PIPE,
                                     stdout=subprocess.PIPE, text=True, bufsize=1)

    def _ask(self, line, timeout=8):
        """One request/response.  A request that does not come back within `timeout` seconds (the real
        engine hangs) kills and restarts the helper and is reported as {"ok": True, "timeout": True}; a
        crash of the helper (panic / abort / stack overflow) as {"ok": True, "crashed": rc}."""
        import select
        self.proc.stdin.write(line + "\n")
        self.proc.stdin.flush()
        r, _, _ = select.select([self.proc.stdout], [], [], timeout)
        if not r:
            self.proc.kill()
            self.proc.wait()
            self._spawn()
            return {"ok": True, "timeout": True}
        out = self.proc.stdout.readline()
        if not out:
            rc = self.proc.wait()
            self._spawn()
            return {"ok": True, "crashed": rc}
        return json.loads(out)

    def dump(self, pattern, flags, no_opt=False):
        cps = ",".join(str(ord(c)) if isinstance(c, str) else str(c) for c in pattern)
        return self._ask("dump\t%s\t%d\t%s" % (flags, 1 if no_opt else 0, cps))

    def find(self, pattern, flags, no_opt, hay, start):
        cps = ",".join(str(ord(c)) if isinstance(c, str) else str(c) for c in pattern)
        h = ",".join(str(ord(c)) for c in hay)
        return self._ask("find\t%s\t%d\t%s\t%d\t%s" % (flags, 1 if no_opt else 0, cps, start, h))

    def prop(self, kind, name):
        return self._ask("prop\t%s\t%s" % (kind, name))

    def find_pike(self, pattern, flags, no_opt, hay, start, ascii=False):
        cps = ",".join(str(ord(c)) if isinstance(c, str) else str(c) for c in pattern)
        h = ",".join(str(ord(c)) for c in hay)
        return self._ask("%s\t%s\t%d\t%s\t%d\t%s" % ("findpa" if ascii else "findp", flags, 1 if no_opt else 0, cps, start, h))

    def find_ascii(self, pattern, flags, no_opt, hay, start):
        cps = ",".join(str(ord(c)) if isinstance(c, str) else str(c) for c in pattern)
        h = ",".join(str(ord(c)) for c in hay)
        return self._ask("finda\t%s\t%d\t%s\t%d\t%s" % (flags, 1 if no_opt else 0, cps, start, h))

    def find_nopred(self, pattern, flags, no_opt, hay, start):
        cps = ",".join(str(ord(c)) if isinstance(c, str) else str(c) for c in pattern)
        h = ",".join(str(ord(c)) for c in hay)
        return self._ask("findnp\t%s\t%d\t%s\t%d\t%s" % (flags, 1 if no_opt else 0, cps, start, h))

    def iter_consistency(self, pattern, flags, no_opt, hay, start, engine="bt"):
        cps = ",".join(str(ord(c)) if isinstance(c, str) else str(c) for c in pattern)
        h = ",".join(str(ord(c)) for c in hay)
        return self._ask("iterc\t%s\t%d\t%s\t%d\t%s\t%s" % (flags, 1 if no_opt else 0, cps, start, h, engine))

    def close(self):
        try:
            self.proc.stdin.close()
            self.proc.wait(timeout=5)
        except Exception:
            self.proc.kill()
