"""Symbolic execution of regress *bytecode programs* with an SMT solver (z3).

The programs are produced by the REAL parser / optimizer / emitter of the current /repo tree (native
dump).  The instruction semantics below is a transcription of src/classicalbacktrack.rs (try_at_pos,
try_backtrack, run_loop, run_scm_loop, run_lookaround, next_match*) - it is validated against the real
executor on concrete inputs by `validate_against_native` on every run, and the real interpreter arms are
tied to the same semantics by the Kani kernel harnesses (classicalbacktrack_h.rs / pikevm_h.rs).

The haystack is a byte string of CONCRETE length and concrete character boundaries (a "width pattern",
enumerated by the caller) whose byte VALUES are symbolic, constrained to well-formed UTF-8.  Hence
positions, captures, loop counters and the backtrack stack are concrete along every path and only branch
conditions are symbolic; all feasible paths are enumerated by systematic re-execution, the solver deciding
feasibility of each branch.  The union of the leaves' path conditions is the whole input space of that
width pattern, so a property checked on every leaf holds for every haystack of that shape.
"""
import z3

CP_MAX = 0x10FFFF
INF = 18446744073709551615


class ModelError(Exception):
    """The program did something the transcription does not model (reported as inconclusive)."""


class StepLimit(Exception):
    pass


# --------------------------------------------------------------------------------------
# haystack
# --------------------------------------------------------------------------------------


def _cont(b):
    return z3.And(z3.UGE(b, 0x80), z3.ULE(b, 0xBF))


class Hay:
    def __init__(self, widths, concrete=None, ascii_only=False):
        self.widths = list(widths)
        self.n = len(widths)
        self.off = [0]
        for w in widths:
            self.off.append(self.off[-1] + w)
        self.len = self.off[-1]
        self.boundary = set(self.off)
        if concrete is not None:
            assert len(concrete) == self.len
            self.b = [z3.BitVecVal(x, 8) for x in concrete]
        else:
            self.b = [z3.BitVec("b%d" % i, 8) for i in range(self.len)]
        self.cons = []
        self.cp = []
        for i, w in enumerate(widths):
            o = self.off[i]
            b = self.b
            ze = lambda x: z3.ZeroExt(24, x)  # noqa: E731
            if w == 1:
                self.cons.append(z3.ULT(b[o], 0x80))
                self.cp.append(ze(b[o]))
            elif w == 2:
                self.cons += [z3.UGE(b[o], 0xC2), z3.ULE(b[o], 0xDF), _cont(b[o + 1])]
                self.cp.append(((ze(b[o]) & 0x1F) << 6) | (ze(b[o + 1]) & 0x3F))
            elif w == 3:
                self.cons += [z3.UGE(b[o], 0xE0), z3.ULE(b[o], 0xEF), _cont(b[o + 1]), _cont(b[o + 2]),
                              z3.Implies(b[o] == 0xE0, z3.UGE(b[o + 1], 0xA0)),
                              z3.Implies(b[o] == 0xED, z3.ULE(b[o + 1], 0x9F))]
                self.cp.append(((ze(b[o]) & 0x0F) << 12) | ((ze(b[o + 1]) & 0x3F) << 6) | (ze(b[o + 2]) & 0x3F))
            elif w == 4:
                self.cons += [z3.UGE(b[o], 0xF0), z3.ULE(b[o], 0xF4), _cont(b[o + 1]), _cont(b[o + 2]), _cont(b[o + 3]),
                              z3.Implies(b[o] == 0xF0, z3.UGE(b[o + 1], 0x90)),
                              z3.Implies(b[o] == 0xF4, z3.ULE(b[o + 1], 0x8F))]
                self.cp.append(((ze(b[o]) & 0x07) << 18) | ((ze(b[o + 1]) & 0x3F) << 12) |
                               ((ze(b[o + 2]) & 0x3F) << 6) | (ze(b[o + 3]) & 0x3F))
            else:
                raise ValueError(w)
        self.idx_at = {o: i for i, o in enumerate(self.off)}

    def char_right(self, pos):
        """(code point expr, next pos) of the char starting at pos, or None at the end."""
        if pos == self.len:
            return None
        if pos not in self.idx_at:
            raise ModelError("character access inside a UTF-8 sequence at %d" % pos)
        i = self.idx_at[pos]
        return self.cp[i], self.off[i + 1]

    def char_left(self, pos):
        if pos == 0:
            return None
        if pos not in self.idx_at:
            raise ModelError("character access inside a UTF-8 sequence at %d" % pos)
        i = self.idx_at[pos] - 1
        return self.cp[i], self.off[i]

    def model_bytes(self, model):
        return [model.eval(x, model_completion=True).as_long() for x in self.b]


def in_intervals(cp, ivs):
    parts = []
    for a, b in ivs:
        if a == b:
            parts.append(cp == a)
        else:
            parts.append(z3.And(z3.UGE(cp, a), z3.ULE(cp, b)))
    if not parts:
        return z3.BoolVal(False)
    return z3.Or(parts) if len(parts) > 1 else parts[0]


def byte_in(b, bytes_):
    bs = sorted(set(bytes_))
    if not bs:
        return z3.BoolVal(False)
    # compress into ranges
    ranges = []
    for x in bs:
        if ranges and ranges[-1][1] + 1 == x:
            ranges[-1][1] = x
        else:
            ranges.append([x, x])
    parts = [(b == lo) if lo == hi else z3.And(z3.UGE(b, lo), z3.ULE(b, hi)) for lo, hi in ranges]
    return z3.Or(parts) if len(parts) > 1 else parts[0]


WORD_IVS = [(0x30, 0x39), (0x41, 0x5A), (0x5F, 0x5F), (0x61, 0x7A)]
LT_IVS = [(0xA, 0xA), (0xD, 0xD), (0x2028, 0x2029)]

# --------------------------------------------------------------------------------------
# path exploration
# --------------------------------------------------------------------------------------


class Explorer:
    def __init__(self, base_constraints, max_paths=20000):
        self.solver = z3.Solver()
        self.solver.add(*base_constraints)
        self.max_paths = max_paths
        self.queries = 0
        self.paths = 0
        self.solver_time = 0.0

    def explore(self, fn):
        """Calls fn(ctx) once per feasible path; yields (ctx, value)."""
        pending = [[]]
        while pending:
            prefix = pending.pop()
            self.paths += 1
            if self.paths > self.max_paths:
                raise StepLimit("more than %d paths" % self.max_paths)
            ctx = PathCtx(self, prefix)
            self.solver.push()
            try:
                val = fn(ctx)
                yield ctx, val
            finally:
                self.solver.pop()
            pending.extend(ctx.scheduled)

    def check(self, extra):
        import time
        t = time.time()
        self.queries += 1
        r = self.solver.check(extra)
        self.solver_time += time.time() - t
        if r == z3.unknown:
            raise ModelError("solver returned unknown")
        return r == z3.sat


class PathCtx:
    def __init__(self, ex, prefix):
        self.ex = ex
        self.prefix = prefix
        self.i = 0
        self.taken = []
        self.scheduled = []

    def branch(self, cond):
        if cond is True or cond is False:
            return cond
        cond = z3.simplify(cond)
        if z3.is_true(cond):
            return True
        if z3.is_false(cond):
            return False
        t = self.ex.check(cond)
        f = self.ex.check(z3.Not(cond))
        if t and f:
            # a genuine fork: follow the recorded decision when replaying, otherwise take True and
            # schedule the False side
            if self.i < len(self.prefix):
                d = self.prefix[self.i]
            else:
                d = True
                self.scheduled.append(self.taken + [False])
            self.i += 1
            self.taken.append(d)
            self.ex.solver.add(cond if d else z3.Not(cond))
            return d
        if not t and not f:
            raise ModelError("infeasible path reached")
        return t

    def model(self):
        assert self.ex.solver.check() == z3.sat
        return self.ex.solver.model()


# --------------------------------------------------------------------------------------
# the bytecode machine (backtracking executor)
# --------------------------------------------------------------------------------------


class VM:
    def __init__(self, prog, hay, ctx, step_limit=20000, folds=None, ascii=False):
        self.ascii = ascii  # AsciiInput: one byte = one element (only meaningful on all-ASCII haystacks)
        self.p = prog
        self.insns = prog["insns"]
        self.hay = hay
        self.ctx = ctx
        self.steps = 0
        self.step_limit = step_limit
        self.max_bts = 0
        self.folds = folds
        self.loops = [(0, 0)] * prog["loops"]  # (iters, entry)
        self.groups = [(None, None)] * prog["groups"]
        self.bts = [["Exhausted"]]

    # ---- single character matchers: return new pos or None ----
    def _next(self, pos, fwd):
        return self.hay.char_right(pos) if fwd else self.hay.char_left(pos)

    def _next_byte(self, pos, fwd):
        if fwd:
            if pos == self.hay.len:
                return None
            return self.hay.b[pos], pos + 1
        if pos == 0:
            return None
        return self.hay.b[pos - 1], pos - 1

    def _match_lit(self, pos, fwd, bytes_):
        n = len(bytes_)
        if fwd:
            if pos + n > self.hay.len:
                return None
            s, e, newpos = pos, pos + n, pos + n
        else:
            if n > pos:
                return None
            s, e, newpos = pos - n, pos, pos - n
        conds = [self.hay.b[s + k] == bytes_[k] for k in range(n)]
        if self.ctx.branch(z3.And(conds) if len(conds) > 1 else conds[0]):
            return newpos
        return None

    def _representable(self, c):
        if self.ascii:
            return c <= 0xFF
        return c <= CP_MAX and not (0xD800 <= c <= 0xDFFF)

    def scm(self, insn, pos, fwd):
        """Single-char matcher semantics (scm.rs).  Returns new pos or None."""
        op = insn["op"]
        if op == "Char":
            r = self._next(pos, fwd)
            if r is None:
                return None
            cp, np = r
            c = insn["c"]
            if not self._representable(c):
                return None  # ElementType::try_from(c) fails: the instruction cannot match
            return np if self.ctx.branch(cp == c) else None
        if op == "CharSet":
            r = self._next(pos, fwd)
            if r is None:
                return None
            cp, np = r
            return np if self.ctx.branch(z3.Or([cp == c for c in set(insn["chars"])])) else None
        if op == "Bracket":
            r = self._next(pos, fwd)
            if r is None:
                return None
            cp, np = r
            bc = self.p["brackets"][insn["idx"]]
            inside = in_intervals(cp, [tuple(iv) for iv in bc["ivs"]])
            cond = z3.Not(inside) if bc["invert"] else inside
            return np if self.ctx.branch(cond) else None
        if op == "MatchAny":
            r = self._next(pos, fwd)
            return None if r is None else r[1]
        if op == "MatchAnyExceptLineTerminator":
            r = self._next(pos, fwd)
            if r is None:
                return None
            cp, np = r
            return np if self.ctx.branch(z3.Not(in_intervals(cp, LT_IVS))) else None
        if op in ("AsciiBracket", "ByteSet"):
            r = self._next_byte(pos, fwd)
            if r is None:
                return None
            b, np = r
            return np if self.ctx.branch(byte_in(b, insn["bytes"])) else None
        if op == "ByteSeq":
            return self._match_lit(pos, fwd, insn["bytes"])
        raise ModelError("not a single-char matcher: " + op)

    def _is_word(self, r, icase_unicode):
        if r is None:
            return False
        cp = r[0]
        ivs = list(WORD_IVS)
        if icase_unicode:
            ivs += [(0x17F, 0x17F), (0x212A, 0x212A)]
        return self.ctx.branch(in_intervals(cp, ivs))

    def _is_lt(self, r):
        return self.ctx.branch(in_intervals(r[0], LT_IVS))

    # ---- loops ----
    def run_loop(self, lf, pos, ip):
        iters, entry = self.loops[lf["loop_id"]]
        do_taken = iters < lf["max"]
        do_not_taken = iters >= lf["min"]
        if entry == pos and iters > lf["min"]:
            return None
        if not do_taken and not do_not_taken:
            return None
        if not do_taken:
            return lf["exit"]
        if not do_not_taken:
            self._enter_loop(lf, pos)
            return ip + 1
        if not lf["greedy"]:
            self.loops[lf["loop_id"]] = (iters, pos)
            self.bts.append(["EnterNonGreedyLoop", ip, entry, (iters, pos)])
            return lf["exit"]
        self.bts.append(["SetPosition", lf["exit"], pos])
        self._enter_loop(lf, pos)
        return ip + 1

    def _enter_loop(self, lf, pos):
        lid = lf["loop_id"]
        self.bts.append(["SetLoopData", lid, self.loops[lid]])
        self.loops[lid] = (self.loops[lid][0] + 1, pos)

    def run_scm_loop(self, pos, fwd, mn, mx, ip, greedy):
        body = self.insns[ip + 1]
        if body["op"] == "Char":
            if not self._representable(body["c"]):
                # with_scm_loop_impl: a character the input cannot contain never matches (zero iterations)
                if mn == 0:
                    return ip + 2, pos
                return None
        p = pos
        for _ in range(mn):
            p = self.scm(body, p, fwd)
            if p is None:
                return None
        min_pos = p
        cnt = mn
        while cnt < mx:
            self._tick()
            q = self.scm(body, p, fwd)
            if q is None:
                break
            p = q
            cnt += 1
        max_pos = p
        cont = ip + 2
        if min_pos != max_pos:
            self.bts.append(["GreedyLoop1Char" if greedy else "NonGreedyLoop1Char", cont, min_pos, max_pos])
        return cont, (max_pos if greedy else min_pos)

    def run_lookaround(self, ip, pos, fwd, start_group, end_group, negate):
        saved_groups = self.groups[start_group:end_group]
        saved_bts = self.bts
        self.bts = [["Exhausted"]]
        matched = self.try_at_pos(ip, pos, fwd) is not None
        self.bts = saved_bts
        if matched and not negate:
            for k, g in enumerate(saved_groups):
                self.bts.append(["SetCaptureGroup", start_group + k, g])
        else:
            self.groups[start_group:end_group] = saved_groups
        return matched != negate

    def _tick(self):
        self.steps += 1
        if self.steps > self.step_limit:
            raise StepLimit("more than %d interpreter steps" % self.step_limit)
        if len(self.bts) > self.max_bts:
            self.max_bts = len(self.bts)

    def try_backtrack(self, fwd):
        """Returns (ip, pos) or None when exhausted."""
        while True:
            self._tick()
            bt = self.bts[-1]
            k = bt[0]
            if k == "Exhausted":
                return None
            if k == "SetPosition":
                self.bts.pop()
                return bt[1], bt[2]
            if k == "SetLoopData":
                self.loops[bt[1]] = bt[2]
                self.bts.pop()
            elif k == "SetCaptureGroup":
                self.groups[bt[1]] = bt[2]
                self.bts.pop()
            elif k == "EnterNonGreedyLoop":
                loop_ip, orig_pos, data = bt[1], bt[2], bt[3]
                lf = self.insns[loop_ip]
                pos = data[1]
                self.bts[-1] = ["SetLoopData", lf["loop_id"], (data[0], orig_pos)]
                self.loops[lf["loop_id"]] = data
                self._enter_loop(lf, pos)
                return loop_ip + 1, pos
            elif k == "GreedyLoop1Char":
                cont, mn, mx = bt[1], bt[2], bt[3]
                if mx == mn:
                    self.bts.pop()
                    continue
                r = self.hay.char_left(mx) if fwd else self.hay.char_right(mx)
                if r is None:
                    raise ModelError("cannot step back inside a 1-char loop")
                bt[3] = r[1]
                return cont, r[1]
            elif k == "NonGreedyLoop1Char":
                cont, mn, mx = bt[1], bt[2], bt[3]
                if mx == mn:
                    self.bts.pop()
                    continue
                r = self.hay.char_right(mn) if fwd else self.hay.char_left(mn)
                if r is None:
                    raise ModelError("cannot step forward inside a 1-char loop")
                bt[2] = r[1]
                return cont, r[1]
            else:
                raise ModelError(k)

    def try_at_pos(self, ip, pos, fwd):
        if len(self.bts) != 1:
            raise ModelError("try_at_pos with a non-empty backtrack stack")
        while True:
            self._tick()
            insn = self.insns[ip]
            op = insn["op"]
            ok = None  # None: control transferred explicitly
            if op in ("Char", "CharSet", "Bracket", "MatchAny", "MatchAnyExceptLineTerminator", "AsciiBracket", "ByteSet"):
                np = self.scm(insn, pos, fwd)
                ok = np is not None
                if ok:
                    pos = np
            elif op == "ByteSeq":
                np = self._match_lit(pos, fwd, insn["bytes"])
                ok = np is not None
                if ok:
                    pos = np
            elif op in ("WordBoundary", "WordBoundaryUnicodeICase"):
                iu = op == "WordBoundaryUnicodeICase"
                a = self._is_word(self.hay.char_left(pos), iu)
                b = self._is_word(self.hay.char_right(pos), iu)
                ok = (a != b) != insn["invert"]
            elif op == "StartOfLine":
                r = self.hay.char_left(pos)
                ok = r is None or (insn["multiline"] and self._is_lt(r))
            elif op == "EndOfLine":
                r = self.hay.char_right(pos)
                ok = r is None or (insn["multiline"] and self._is_lt(r))
            elif op == "Jump":
                ip = insn["target"]
                continue
            elif op == "BeginCaptureGroup":
                g = insn["g"]
                self.bts.append(["SetCaptureGroup", g, self.groups[g]])
                s, e = self.groups[g]
                self.groups[g] = (pos, e) if fwd else (s, pos)
                ok = True
            elif op == "EndCaptureGroup":
                g = insn["g"]
                self.bts.append(["SetCaptureGroup", g, self.groups[g]])
                s, e = self.groups[g]
                self.groups[g] = (s, pos) if fwd else (pos, e)
                ok = True
            elif op == "ResetCaptureGroup":
                g = insn["g"]
                self.bts.append(["SetCaptureGroup", g, self.groups[g]])
                self.groups[g] = (None, None)
                ok = True
            elif op == "BackRef":
                s, e = self.groups[insn["g"]]
                if s is None or e is None:
                    ok = True
                elif insn["icase"]:
                    raise ModelError("case-insensitive backreference is not modelled")
                else:
                    n = e - s
                    if fwd:
                        fits = pos + n <= self.hay.len
                        base, newpos = pos, pos + n
                    else:
                        fits = n <= pos
                        base, newpos = pos - n, pos - n
                    if not fits:
                        ok = False
                    elif n == 0:
                        ok = True
                    else:
                        conds = [self.hay.b[s + k] == self.hay.b[base + k] for k in range(n)]
                        ok = self.ctx.branch(z3.And(conds) if n > 1 else conds[0])
                        if ok:
                            pos = newpos
            elif op in ("Lookahead", "Lookbehind"):
                if self.run_lookaround(ip + 1, pos, op == "Lookahead", insn["start_group"], insn["end_group"], insn["negate"]):
                    ip = insn["continuation"]
                    continue
                ok = False
            elif op == "Alt":
                self.bts.append(["SetPosition", insn["secondary"], pos])
                ok = True
            elif op == "EnterLoop":
                lid = insn["loop_id"]
                if self.loops[lid][0] != 0:
                    self.bts.append(["SetLoopData", lid, self.loops[lid]])
                    self.loops[lid] = (0, self.loops[lid][1])
                nip = self.run_loop(insn, pos, ip)
                if nip is not None:
                    ip = nip
                    continue
                ok = False
            elif op == "LoopAgain":
                lf = self.insns[insn["begin"]]
                nip = self.run_loop(lf, pos, insn["begin"])
                if nip is not None:
                    ip = nip
                    continue
                ok = False
            elif op == "Loop1CharBody":
                r = self.run_scm_loop(pos, fwd, insn["min"], insn["max"], ip, insn["greedy"])
                if r is not None:
                    ip, pos = r
                    continue
                ok = False
            elif op == "Goal":
                del self.bts[1:]
                return pos
            elif op == "JustFail":
                ok = False
            else:
                raise ModelError("unknown instruction " + op)
            if ok:
                ip += 1
                continue
            r = self.try_backtrack(fwd)
            if r is None:
                return None
            ip, pos = r

    # ---- the search loop (BacktrackExecutor::next_match) ----
    def find_from(self, start, use_pred=True):
        """First match at or after byte offset `start` (a boundary): (s, e, caps) or None."""
        sp = self.p["start_pred"] if use_pred else {"kind": "Arbitrary"}
        pos = start
        if pos > self.hay.len:
            return None
        while True:
            self._tick()
            if sp["kind"] == "StartAnchored":
                e = self.try_at_pos(0, pos, True)
                return None if e is None else self._result(pos, e)
            if sp["kind"] == "ByteSet":
                found = None
                q = pos
                while q < self.hay.len:
                    if self.ctx.branch(byte_in(self.hay.b[q], sp["bytes"])):
                        found = q
                        break
                    q += 1
                if found is None:
                    return None
                pos = found
            elif sp["kind"] == "ByteSeq":
                nd = sp["bytes"]
                found = None
                q = pos
                while q + len(nd) <= self.hay.len:
                    conds = [self.hay.b[q + k] == nd[k] for k in range(len(nd))]
                    if not conds or self.ctx.branch(z3.And(conds) if len(conds) > 1 else conds[0]):
                        found = q
                        break
                    q += 1
                if found is None:
                    return None
                pos = found
            e = self.try_at_pos(0, pos, True)
            if e is not None:
                return self._result(pos, e)
            r = self.hay.char_right(pos)
            if r is None:
                return None
            pos = r[1]

    def _result(self, s, e):
        caps = []
        for gs, ge in self.groups:
            caps.append((gs, ge) if gs is not None and ge is not None else None)
        self.groups = [(None, None)] * len(self.groups)
        return (s, e, tuple(caps))
