"""Class expressions (legacy brackets and v-mode class sets) with independently computed denotations,
for C12.  A denotation is (code point intervals, set of strings); a single-character string and the code
point are the same member.  Case-insensitivity: operands are closed under the canonical equivalence of
C10 first, then combined (set operations commute with closure on closed sets); complements are taken of
the closed set (what ES prescribes for u and, through MaybeSimpleCaseFolding, for v)."""
import itertools
import random

import corpus
from corpus import Alt, Cls, End, Esc, Lit, Opaque, RawCls, Seq, Start, Case, norm, invert, icase_close


def iv_and(a, b):
    out = []
    for x1, y1 in a:
        for x2, y2 in b:
            lo, hi = max(x1, x2), min(y1, y2)
            if lo <= hi:
                out.append((lo, hi))
    return norm(out)


def iv_sub(a, b):
    return iv_and(a, invert(b))


class Den:
    def __init__(self, text, cps, strs=(), neg_of=None):
        self.text = text
        self.cps = norm(cps)
        self.strs = set(tuple(s) for s in strs)  # tuples of code points, len != 1
        self.neg_of = neg_of  # nested negated class [^...]: the complement is taken of the CLOSED inner set

    def normalized(self):
        # single-char strings are members of cps
        cps = list(self.cps)
        strs = set()
        for s in self.strs:
            if len(s) == 1:
                cps.append((s[0], s[0]))
            else:
                strs.add(s)
        return norm(cps), strs


def close(d, fl):
    if d.neg_of is not None:
        inner, _ = close(d.neg_of, fl)
        return invert(inner), set()
    cps, strs = d.normalized()
    if fl.icase:
        cps = icase_close(cps, True)
    return cps, strs


def fold_str(s, fl):
    return tuple(corpus.canon(c, True) for c in s) if fl.icase else tuple(s)


def known_ids():
    import os
    return set(x for x in os.environ.get("VERIF_KNOWN", "").split(",") if x)


def operands():
    o = lambda ch: ord(ch)  # noqa: E731
    ops = _operands()
    if "C12-empty-qstring" in known_ids():
        # known finding: the empty alternative of \\q{} is dropped by the parser; excluded from the general
        # corpus and asserted by the witness case kf_C12-empty-qstring instead
        ops = [d for d in ops if d.text != "\\q{}"]
    return ops


def _operands():
    o = lambda ch: ord(ch)  # noqa: E731
    return [
        Den("a", [(o("a"), o("a"))]), Den("k", [(o("k"), o("k"))]), Den("a-c", [(o("a"), o("c"))]),
        Den("\\d", corpus.DIGITS), Den("\\w", corpus.WORD), Den("[ab]", [(o("a"), o("b"))]),
        Den("[^a]", invert([(o("a"), o("a"))]), neg_of=Den("a", [(o("a"), o("a"))])), Den("\\q{ab|c}", [(o("c"), o("c"))], [(o("a"), o("b"))]),
        Den("\\q{a}", [(o("a"), o("a"))]), Den("\\q{abc|ab|b}", [(o("b"), o("b"))], [(o("a"), o("b"), o("c")), (o("a"), o("b"))]),
        Den("[a-c\\q{0|2}]", [(o("a"), o("c")), (o("0"), o("0")), (o("2"), o("2"))]),
        Den("[\\q{0|2|4}]", [(o("0"), o("0")), (o("2"), o("2")), (o("4"), o("4"))]),
        Den("[0-9]", corpus.DIGITS), Den("a&b", [(o("a"), o("b")), (o("&"), o("&"))]),
        Den("[a\\q{c|xyz}]", [(o("a"), o("a")), (o("c"), o("c"))], [(o("x"), o("y"), o("z"))]),
        Den("\\q{}", [], [()]),
    ]


def combine(a, b, op, fl):
    ca, sa = close(a, fl)
    cb, sb = close(b, fl)
    sa = {fold_str(s, fl) for s in sa}
    sb = {fold_str(s, fl) for s in sb}
    if op == "":
        return ca + cb, sa | sb
    if op == "&&":
        return iv_and(ca, cb), sa & sb
    return iv_sub(ca, cb), sa - sb


def v_cases(seed, count):
    """(text, flags, cps, strs) for v-mode class sets of depth <= 2."""
    rng = random.Random(seed)
    ops = ["", "&&", "--"]
    out = []
    ops_list = operands()
    for fl_s in ("v", "iv"):
        fl = corpus.Fl(fl_s)
        for a, b in itertools.product(ops_list, repeat=2):
            for op in ops:
                if op == "" and (a.text == "a&b" or b.text == "a&b"):
                    ta, tb = a.text, b.text
                elif op != "" and ("a&b" in (a.text, b.text) or "a-c" in (a.text, b.text)):
                    continue  # operands of && and -- must be single operands, not unions/ranges
                cps, strs = combine(a, b, op, fl)
                text = "[" + a.text + op + b.text + "]"
                if op == "" and a.text[-1:].isalnum() and b.text[:1] == "-":
                    continue
                out.append((text, fl_s, norm(cps), strs, False))
                # negated form is only legal without strings
                sa = close(a, fl)[1] | close(b, fl)[1]
                if not sa:
                    out.append(("[^" + a.text + op + b.text + "]", fl_s, invert(norm(cps)), set(), True))
    rng.shuffle(out)
    # always keep a few fixed shapes
    fixed = [t for t in out if t[0] in ("[a&b]", "[[0-9]&&[\\q{0|2|4}]]", "[[a-c\\q{0|2}]&&[\\q{0|2|4}]]", "[\\q{abc|ab|b}--\\q{ab|c}]",
                                        "[\\w--k]", "[^k]", "[[a\\q{c|xyz}]&&[a-c]]")]
    rest = [t for t in out if t not in fixed]
    return fixed + rest[:max(0, count - len(fixed))]


def legacy_cases():
    o = lambda ch: ord(ch)  # noqa: E731
    shapes = [
        Cls([o("a"), o("-"), o("c")]), Cls([(o("a"), o("c")), o("-")]), Cls([o("-"), (o("a"), o("c"))]),
        Cls([Esc("d"), o("-"), o("z")]), Cls([(o("a"), o("c")), Esc("s")], neg=True), Cls([Esc("W"), o("a")]),
        Cls([Esc("D"), Esc("d")]), Cls([Esc("S"), Esc("s")], neg=True), Cls([o("k"), (0x3B1, 0x3B3)]),
        Cls([(0x17F, 0x17F)]), Cls([(o("A"), o("Z"))], neg=True), Cls([o("]")]), Cls([o("^")]),
        Cls([(0x1F600, 0x1F64F), o("x")]),
    ]
    out = []
    for c in shapes:
        for f in ("", "i", "u", "iu"):
            out.append((c, f))
    return out


def cases(seed, count):
    """corpus.Case list: each class expression as ^E$ and as E followed by 'b'."""
    out = []
    o = lambda ch: ord(ch)  # noqa: E731
    k = 0
    for text, flags, cps, strs, neg in v_cases(seed, count):
        alts = [Seq([Lit(c) for c in s]) for s in sorted((s for s in strs if len(s) >= 2), key=lambda s: (-len(s), s))]
        node = RawCls(text, cps) if not alts and () not in strs else None
        if node is None:
            parts = list(alts)
            if cps:
                parts.append(RawCls("", cps))
            if () in strs:
                parts.append(Seq([]))
            node = Opaque(text, Alt(parts) if len(parts) > 1 else parts[0])
        for shape in (lambda n: Seq([Start(), n, End()]), lambda n: Seq([n, Lit("b")])):
            c = Case(shape(node), flags, "cls_v_%d" % k)
            c.widths, c.nmax, c.lens, c.ascii_only = (1, 2, 3), 2 if not strs else 3, None, False
            if strs:
                c.widths = (1,)
            out.append(c)
            k += 1
    if "C12-empty-qstring" in known_ids():
        c = Case(Seq([Opaque("[\\q{}]", Seq([])), Lit("b")]), "v", "kf_C12-empty-qstring")
        c.widths, c.nmax, c.lens, c.ascii_only = (1,), 1, None, False
        c.kf = "C12-empty-qstring"
        out.append(c)
    for cls, flags in legacy_cases():
        c = Case(Seq([Start(), cls, End()]), flags, "cls_l_%d" % k)
        c.widths, c.nmax, c.lens, c.ascii_only = (1, 2, 3, 4), 1, None, False
        out.append(c)
        k += 1
    # Annex B ClassAtom - ClassAtom with a class escape on one side: the three atoms are consumed as a unit
    # (union of both atoms and '-'); what follows starts afresh.  Denotations written out by hand.
    digits, word = [(0x30, 0x39)], [(0x30, 0x39), (0x41, 0x5A), (0x5F, 0x5F), (0x61, 0x7A)]
    space = [(9, 13), (0x20, 0x20), (0xA0, 0xA0), (0x1680, 0x1680), (0x2000, 0x200A), (0x2028, 0x2029), (0x202F, 0x202F),
             (0x205F, 0x205F), (0x3000, 0x3000), (0xFEFF, 0xFEFF)]
    annexb = [
        ("[\\d-a-z]", digits + [(0x2D, 0x2D), (0x61, 0x61), (0x7A, 0x7A)], False),
        ("[\\w-!-/]", word + [(0x2D, 0x2D), (0x21, 0x21), (0x2F, 0x2F)], False),
        ("[^\\s-A-Z]", space + [(0x2D, 0x2D), (0x41, 0x41), (0x5A, 0x5A)], True),
        ("[a-\\d-z]", digits + [(0x61, 0x61), (0x2D, 0x2D), (0x7A, 0x7A)], False),
        ("[+--\\d]", [(0x2B, 0x2D)] + digits, False),
    ]
    for text, ivs, neg in annexb:
        den = invert(norm(ivs)) if neg else norm(ivs)
        c = Case(Seq([Start(), RawCls(text, den), End()]), "", "cls_l_%d" % k)
        c.widths, c.nmax, c.lens, c.ascii_only = (1, 2, 3), 1, None, False
        out.append(c)
        k += 1
    return out
