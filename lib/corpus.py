"""Choice-free pattern corpus: AST, pattern-source rendering, and emission of a straight-line Rust
oracle (the ECMAScript semantics of the pattern, written from ECMA-262 22.2.2 by this generator and
NOT derived from regress).  Because the patterns contain no choice point (no alternation, no
non-exact quantifier) the ES backtracking semantics degenerates to "first start offset at which the
single path succeeds", which the oracle spells out item by item over *code points*.

Case-insensitivity is resolved here, at generation time, from the independent oracle tables in
/verif/oracle (Unicode simple case folding classes for u/v, ES legacy Canonicalize otherwise): every
character test of the oracle is a membership test in a literal list of code point intervals.
"""
import os
import random
import re

VERIF = os.path.dirname(os.path.dirname(os.path.abspath(__file__)))
CP_MAX = 0x10FFFF

# --------------------------------------------------------------------------------------
# oracle tables (python view)
# --------------------------------------------------------------------------------------

_tabs = None


def _load():
    global _tabs
    if _tabs is not None:
        return _tabs
    s = open(os.path.join(VERIF, "oracle", "fold_oracle.rs")).read()

    def tab(name):
        m = re.search(r"pub static %s: \[\(u32, u32\); \d+\] = \[(.*?)\];" % name, s, re.S)
        return [(int(a, 16), int(b, 16)) for a, b in re.findall(r"\(0x([0-9A-F]+), 0x([0-9A-F]+)\)", m.group(1))]

    fold_rep = dict(tab("FOLD_REP"))
    upper = dict(tab("UPPER_CANON"))
    ucls = {}
    for c, r in fold_rep.items():
        ucls.setdefault(r, []).append(c)
    lcls = {}
    for c, u in upper.items():
        lcls.setdefault(u, set()).add(c)
        lcls[u].add(u)
    _tabs = dict(fold_rep=fold_rep, upper=upper, ucls=ucls, lcls={k: sorted(v) for k, v in lcls.items()})
    return _tabs


def canon(c, unicode):
    t = _load()
    if unicode:
        return t["fold_rep"].get(c, c)
    return t["upper"].get(c, c)


def eq_class(c, unicode):
    """All code points d with canon(d) == canon(c)."""
    t = _load()
    k = canon(c, unicode)
    if unicode:
        return sorted(set(t["ucls"].get(k, [k])) | {c})
    return sorted(set(t["lcls"].get(k, [k])) | {c, k})


def nontrivial_cps(unicode):
    t = _load()
    if unicode:
        return t["fold_rep"].keys()
    s = set(t["upper"].keys()) | set(t["upper"].values())
    return s


# --------------------------------------------------------------------------------------
# interval sets
# --------------------------------------------------------------------------------------


def norm(ivs):
    out = []
    for a, b in sorted(ivs):
        if out and a <= out[-1][1] + 1:
            out[-1] = (out[-1][0], max(out[-1][1], b))
        else:
            out.append((a, b))
    return out


def invert(ivs):
    out = []
    start = 0
    for a, b in norm(ivs):
        if start < a:
            out.append((start, a - 1))
        start = b + 1
    if start <= CP_MAX:
        out.append((start, CP_MAX))
    return out


def contains(ivs, c):
    return any(a <= c <= b for a, b in ivs)


def icase_close(ivs, unicode):
    """{d : exists a in ivs with canon(a) == canon(d)}"""
    ivs = norm(ivs)
    extra = []
    for d in nontrivial_cps(unicode):
        if contains(ivs, d):
            continue
        if any(contains(ivs, m) for m in eq_class(d, unicode)):
            extra.append((d, d))
    return norm(ivs + extra)


DIGITS = [(0x30, 0x39)]
WORD = [(0x30, 0x39), (0x41, 0x5A), (0x5F, 0x5F), (0x61, 0x7A)]
SPACE = norm([(9, 13), (0x20, 0x20), (0xA0, 0xA0), (0x1680, 0x1680), (0x2000, 0x200A), (0x2028, 0x2029),
              (0x202F, 0x202F), (0x205F, 0x205F), (0x3000, 0x3000), (0xFEFF, 0xFEFF)])
LINE_TERM = [(0xA, 0xA), (0xD, 0xD), (0x2028, 0x2029)]
SYNTAX = set("\\^$.|?*+()[]{}/")


def word_chars(fl):
    """WordCharacters(rer): basic word chars plus, when ignoreCase and a unicode flag are both set, the
    characters whose simple case folding is a basic word char (U+017F, U+212A)."""
    if fl.icase and fl.unicode_mode:
        return norm(WORD + [(0x17F, 0x17F), (0x212A, 0x212A)])
    return WORD


class Fl:
    def __init__(self, s):
        self.s = s
        self.icase = "i" in s
        self.multiline = "m" in s
        self.dotall = "s" in s
        self.u = "u" in s
        self.v = "v" in s
        self.unicode_mode = self.u or self.v  # folding mode prescribed by ES


# --------------------------------------------------------------------------------------
# AST
# --------------------------------------------------------------------------------------


class Node:
    pass


class Lit(Node):
    def __init__(self, c):
        self.c = c if isinstance(c, int) else ord(c)

    def src(self, fl):
        ch = chr(self.c)
        if ch in SYNTAX:
            return "\\" + ch
        if 0xD800 <= self.c <= 0xDFFF:
            return "\\u%04X" % self.c
        return ch

    def charset(self, fl):
        if fl.icase:
            return norm([(d, d) for d in eq_class(self.c, fl.unicode_mode)])
        return [(self.c, self.c)]


class Dot(Node):
    def src(self, fl):
        return "."

    def charset(self, fl):
        return [(0, CP_MAX)] if fl.dotall else invert(LINE_TERM)


class Esc(Node):
    """\\d \\D \\w \\W \\s \\S"""

    def __init__(self, k):
        self.k = k

    def src(self, fl):
        return "\\" + self.k

    def base(self, fl):
        k = self.k.lower()
        return {"d": DIGITS, "w": word_chars(fl), "s": SPACE}[k]

    def charset(self, fl):
        s = self.base(fl)
        if self.k.isupper():
            s = invert(s)
        # CharacterSetMatcher compares canonical forms
        if fl.icase:
            s = icase_close(s, fl.unicode_mode)
            if self.k == "W":
                # \W under i: complement of the (closed) word set (ES2025 CharacterComplement of
                # WordCharacters, matched through Canonicalize: a char whose canonical form is a word
                # char's canonical form can only be matched through a non-word char with the same
                # canonical form - none exists because WordCharacters is closed under the relation).
                s = invert(icase_close(word_chars(fl), fl.unicode_mode))
        return s


class Cls(Node):
    """Legacy/u bracket: items are ints (chars), (lo,hi) ranges or Esc nodes."""

    def __init__(self, items, neg=False):
        self.items = items
        self.neg = neg

    @staticmethod
    def _ch(c):
        ch = chr(c)
        if ch in "\\]^-[":
            return "\\" + ch
        return ch

    def src(self, fl):
        s = "[" + ("^" if self.neg else "")
        for it in self.items:
            if isinstance(it, Esc):
                s += it.src(fl)
            elif isinstance(it, tuple):
                s += self._ch(it[0]) + "-" + self._ch(it[1])
            else:
                s += self._ch(it)
        return s + "]"

    def charset(self, fl):
        a = []
        for it in self.items:
            if isinstance(it, Esc):
                b = it.base(fl)
                if it.k.isupper():
                    b = invert(b)
                a += b
            elif isinstance(it, tuple):
                a.append(it)
            else:
                a.append((it, it))
        a = norm(a)
        if fl.icase:
            a = icase_close(a, fl.unicode_mode)
        return invert(a) if self.neg else a


class RawCls(Node):
    """A class given by its source text and its denotation (used for v-mode class-set expressions,
    whose denotation is computed by classgen)."""

    def __init__(self, text, ivs):
        self.text = text
        self.ivs = norm(ivs)

    def src(self, fl):
        return self.text

    def charset(self, fl):
        return self.ivs


class Opaque(Node):
    """A construct given by its source text whose meaning is given by an equivalent AST (used for v-mode
    class sets with string alternatives: text = the class expression, node = the alternation it denotes)."""

    def __init__(self, text, node):
        self.text = text
        self.node = node

    def src(self, fl):
        return self.text


class Start(Node):
    def src(self, fl):
        return "^"


class End(Node):
    def src(self, fl):
        return "$"


class WB(Node):
    def __init__(self, neg=False):
        self.neg = neg

    def src(self, fl):
        return "\\B" if self.neg else "\\b"


class Group(Node):
    def __init__(self, body, cap=True, name=None):
        self.body = body
        self.cap = cap
        self.name = name
        self.idx = None

    def src(self, fl):
        if not self.cap:
            return "(?:" + self.body.src(fl) + ")"
        if self.name:
            return "(?<%s>" % self.name + self.body.src(fl) + ")"
        return "(" + self.body.src(fl) + ")"


class Backref(Node):
    def __init__(self, k):
        self.k = k  # 1-based

    def src(self, fl):
        return "\\%d" % self.k


class Look(Node):
    def __init__(self, body, ahead=True, neg=False):
        self.body = body
        self.ahead = ahead
        self.neg = neg

    def src(self, fl):
        return "(?" + ("" if self.ahead else "<") + ("!" if self.neg else "=") + self.body.src(fl) + ")"


class Rep(Node):
    def __init__(self, body, n):
        self.body = body
        self.n = n

    def src(self, fl):
        return self.body.src(fl) + "{%d}" % self.n


class Seq(Node):
    def __init__(self, items):
        self.items = items

    def src(self, fl):
        return "".join(("(?:" + i.src(fl) + ")") if isinstance(i, Alt) else i.src(fl) for i in self.items)


class Alt(Node):
    """Disjunction (a choice point: only usable with the SMT-based checks, not the straight-line oracle)."""

    def __init__(self, items):
        self.items = items

    def src(self, fl):
        return "|".join(i.src(fl) for i in self.items)


class Quant(Node):
    """General quantifier {min,max} greedy/lazy; max None = unbounded."""

    def __init__(self, body, mn, mx, greedy=True):
        self.body = body
        self.mn = mn
        self.mx = mx
        self.greedy = greedy

    def src(self, fl):
        b = self.body.src(fl)
        if isinstance(self.body, (Seq, Alt)) or (isinstance(self.body, Quant)):
            b = "(?:" + b + ")"
        if (self.mn, self.mx) == (0, None):
            q = "*"
        elif (self.mn, self.mx) == (1, None):
            q = "+"
        elif (self.mn, self.mx) == (0, 1):
            q = "?"
        elif self.mx is None:
            q = "{%d,}" % self.mn
        elif self.mn == self.mx:
            q = "{%d}" % self.mn
        else:
            q = "{%d,%d}" % (self.mn, self.mx)
        return b + q + ("" if self.greedy else "?")


def number_groups(node, counter=None, names=None):
    """Assign capture indices in left-parenthesis order; returns (count, names)."""
    if counter is None:
        counter = [0]
        names = []
    if isinstance(node, Group):
        if node.cap:
            node.idx = counter[0]
            counter[0] += 1
            names.append(node.name or "")
        number_groups(node.body, counter, names)
    elif isinstance(node, Opaque):
        number_groups(node.node, counter, names)
    elif isinstance(node, (Look, Rep, Quant)):
        number_groups(node.body, counter, names)
    elif isinstance(node, (Seq, Alt)):
        for i in node.items:
            number_groups(i, counter, names)
    return counter[0], names


def groups_in(node):
    out = []
    if isinstance(node, Group):
        if node.cap:
            out.append(node.idx)
        out += groups_in(node.body)
    elif isinstance(node, Opaque):
        out += groups_in(node.node)
    elif isinstance(node, (Look, Rep, Quant)):
        out += groups_in(node.body)
    elif isinstance(node, (Seq, Alt)):
        for i in node.items:
            out += groups_in(i)
    return out


def max_width(node):
    """Upper bound on characters consumed (used for unwinding bounds)."""
    if isinstance(node, (Lit, Dot, Esc, Cls, RawCls)):
        return 1
    if isinstance(node, Group):
        return max_width(node.body)
    if isinstance(node, Rep):
        return node.n * max_width(node.body)
    if isinstance(node, Seq):
        return sum(max_width(i) for i in node.items)
    return 0


# --------------------------------------------------------------------------------------
# python reference evaluation (same semantics as the emitted Rust; used to validate the emitted
# oracle text against the real engine natively before any solver run)
# --------------------------------------------------------------------------------------


class Fail(Exception):
    pass


def _is_lt(c):
    return contains(LINE_TERM, c)


def py_match_at(node, fl, h, p, caps, fwd=True):
    n = len(h)
    if isinstance(node, (Lit, Dot, Esc, Cls, RawCls)):
        cs = node.charset(fl)
        if fwd:
            if p >= n or not contains(cs, h[p]):
                raise Fail()
            return p + 1
        if p == 0 or not contains(cs, h[p - 1]):
            raise Fail()
        return p - 1
    if isinstance(node, Start):
        if p == 0 or (fl.multiline and _is_lt(h[p - 1])):
            return p
        raise Fail()
    if isinstance(node, End):
        if p == n or (fl.multiline and _is_lt(h[p])):
            return p
        raise Fail()
    if isinstance(node, WB):
        w = word_chars(fl)
        a = p > 0 and contains(w, h[p - 1])
        b = p < n and contains(w, h[p])
        if (a != b) == node.neg:
            raise Fail()
        return p
    if isinstance(node, Group):
        q = py_match_at(node.body, fl, h, p, caps, fwd)
        if node.cap:
            caps[node.idx] = (p, q) if fwd else (q, p)
        return q
    if isinstance(node, Backref):
        k = node.k - 1
        if k >= len(caps) or caps[k] is None:
            return p
        a, b = caps[k]
        ln = b - a
        if fwd:
            if p + ln > n:
                raise Fail()
            base = p
        else:
            if ln > p:
                raise Fail()
            base = p - ln
        for i in range(ln):
            x, y = h[a + i], h[base + i]
            if fl.icase:
                if canon(x, fl.unicode_mode) != canon(y, fl.unicode_mode):
                    raise Fail()
            elif x != y:
                raise Fail()
        return p + ln if fwd else p - ln
    if isinstance(node, Look):
        saved = list(caps)
        try:
            py_match_at(node.body, fl, h, p, caps, node.ahead)
            ok = True
        except Fail:
            ok = False
        if node.neg:
            caps[:] = saved
            if ok:
                raise Fail()
        elif not ok:
            raise Fail()
        return p
    if isinstance(node, Rep):
        for _ in range(node.n):
            for g in groups_in(node.body):
                caps[g] = None
            p = py_match_at(node.body, fl, h, p, caps, fwd)
        return p
    if isinstance(node, Seq):
        for it in (node.items if fwd else reversed(node.items)):
            p = py_match_at(it, fl, h, p, caps, fwd)
        return p
    raise AssertionError(node)


def py_find(node, ngroups, fl, h, s0):
    for s in range(s0, len(h) + 1):
        caps = [None] * ngroups
        try:
            e = py_match_at(node, fl, h, s, caps, True)
            return (s, e, caps)
        except Fail:
            continue
    return None


# --------------------------------------------------------------------------------------
# Rust oracle emission
# --------------------------------------------------------------------------------------


def rs_set_test(ivs, var):
    ivs = norm(ivs)
    if not ivs:
        return "false"
    if ivs == [(0, CP_MAX)]:
        return "true"
    parts = []
    for a, b in ivs:
        if a == b:
            parts.append("%s == 0x%X" % (var, a))
        elif a == 0:
            parts.append("%s <= 0x%X" % (var, b))
        elif b == CP_MAX:
            parts.append("%s >= 0x%X" % (var, a))
        else:
            parts.append("(%s >= 0x%X && %s <= 0x%X)" % (var, a, var, b))
    return "(" + " || ".join(parts) + ")"


class Emitter:
    def __init__(self, fl, ngroups):
        self.fl = fl
        self.g = ngroups
        self.lines = []
        self.nlab = 0
        self.ind = 2

    def w(self, s):
        self.lines.append("    " * self.ind + s)

    def emit(self, node, fwd, fail):
        """fail: the Rust statement that aborts the current attempt/lookaround."""
        fl = self.fl
        if isinstance(node, (Lit, Dot, Esc, Cls, RawCls)):
            cs = node.charset(fl)
            if fwd:
                self.w("if p >= n { %s }" % fail)
                self.w("{ let c = h[p]; if !%s { %s } }" % (rs_set_test(cs, "c"), fail))
                self.w("p += 1;")
            else:
                self.w("if p == 0 { %s }" % fail)
                self.w("{ let c = h[p - 1]; if !%s { %s } }" % (rs_set_test(cs, "c"), fail))
                self.w("p -= 1;")
        elif isinstance(node, Start):
            if fl.multiline:
                self.w("if !(p == 0 || is_lt(h[p - 1])) { %s }" % fail)
            else:
                self.w("if p != 0 { %s }" % fail)
        elif isinstance(node, End):
            if fl.multiline:
                self.w("if !(p == n || is_lt(h[p])) { %s }" % fail)
            else:
                self.w("if p != n { %s }" % fail)
        elif isinstance(node, WB):
            wt = lambda v: rs_set_test(word_chars(fl), v)  # noqa: E731
            self.w("{ let a = p > 0 && { let c = h[p - 1]; %s }; let b = p < n && { let c = h[p]; %s };" % (wt("c"), wt("c")))
            self.w("  if (a != b) == %s { %s } }" % ("true" if node.neg else "false", fail))
        elif isinstance(node, Group):
            if node.cap:
                self.nlab += 1
                v = "g%d" % self.nlab
                self.w("let %s = p;" % v)
                self.emit(node.body, fwd, fail)
                if fwd:
                    self.w("caps[%d] = Some((%s, p));" % (node.idx, v))
                else:
                    self.w("caps[%d] = Some((p, %s));" % (node.idx, v))
            else:
                self.emit(node.body, fwd, fail)
        elif isinstance(node, Backref):
            k = node.k - 1
            if k >= self.g:
                return
            eq = "canon_eq(x, y)" if fl.icase else "x == y"
            self.w("if let Some((a, b)) = caps[%d] {" % k)
            self.ind += 1
            self.w("let ln = b - a;")
            if fwd:
                self.w("if p + ln > n { %s }" % fail)
                self.w("let base = p;")
            else:
                self.w("if ln > p { %s }" % fail)
                self.w("let base = p - ln;")
            self.w("let mut i = 0;")
            self.w("while i < ln { let x = h[a + i]; let y = h[base + i]; if !(%s) { %s } i += 1; }" % (eq, fail))
            self.w("p = %s;" % ("p + ln" if fwd else "p - ln"))
            self.ind -= 1
            self.w("}")
        elif isinstance(node, Look):
            self.nlab += 1
            lab = "'l%d" % self.nlab
            self.w("{")
            self.ind += 1
            self.w("let saved_p = p; let saved_caps = caps;")
            self.w("let r = %s: {" % lab)
            self.ind += 1
            self.emit(node.body, node.ahead, "break %s false;" % lab)
            self.w("true")
            self.ind -= 1
            self.w("};")
            self.w("p = saved_p;")
            if node.neg:
                self.w("caps = saved_caps;")
                self.w("if r { %s }" % fail)
            else:
                self.w("let _ = saved_caps;")
                self.w("if !r { %s }" % fail)
            self.ind -= 1
            self.w("}")
        elif isinstance(node, Rep):
            for _ in range(node.n):
                for g in groups_in(node.body):
                    self.w("caps[%d] = None;" % g)
                self.emit(node.body, fwd, fail)
        elif isinstance(node, Seq):
            for it in (node.items if fwd else list(reversed(node.items))):
                self.emit(it, fwd, fail)
        else:
            raise AssertionError(node)


def emit_oracle(name, node, ngroups, fl, nmax):
    """Rust source of `fn <name>(h: &[u32; NMAX], n: usize, s0: usize) -> Option<(usize, usize, [Option<(usize, usize)>; G])>`."""
    em = Emitter(fl, ngroups)
    em.emit(node, True, "break 'm false;")
    body = "\n".join(em.lines)
    canon_tab = "CANON_U" if fl.unicode_mode else "CANON_L"
    g = max(ngroups, 1)
    return """
#[allow(unused_mut, unused_variables, unused_assignments, unused_labels, unused_parens, clippy::all)]
fn %(name)s(h: &[u32; %(nmax)d], n: usize, s0: usize) -> Option<(usize, usize, [Option<(usize, usize)>; %(g)d])> {
    let canon_eq = |x: u32, y: u32| x == y || canon_lookup(&%(canon)s, x) == canon_lookup(&%(canon)s, y);
    let mut s = s0;
    while s <= n {
        let mut p = s;
        let mut caps: [Option<(usize, usize)>; %(g)d] = [None; %(g)d];
        let ok = 'm: {
%(body)s
            true
        };
        if ok {
            return Some((s, p, caps));
        }
        s += 1;
    }
    None
}
""" % dict(name=name, nmax=nmax, g=g, body=body, canon=canon_tab)


ORACLE_PRELUDE = """
#[allow(dead_code)]
fn is_lt(c: u32) -> bool {
    c == 0xA || c == 0xD || c == 0x2028 || c == 0x2029
}

#[allow(dead_code)]
fn canon_lookup(tab: &[(u32, u32)], c: u32) -> u32 {
    let mut lo = 0usize;
    let mut hi = tab.len();
    while lo < hi {
        let mid = lo + (hi - lo) / 2;
        let k = tab[mid].0;
        if k == c {
            return tab[mid].1;
        } else if k < c {
            lo = mid + 1;
        } else {
            hi = mid;
        }
    }
    c
}
"""


# --------------------------------------------------------------------------------------
# corpus
# --------------------------------------------------------------------------------------


class Case:
    def __init__(self, node, flags, tag="", alphabet=None, props=None):
        self.node = node
        self.flags = flags
        self.fl = Fl(flags)
        self.ngroups, self.names = number_groups(node)
        self.src = node.src(self.fl)
        self.tag = tag
        self.alphabet = alphabet  # code points worth trying in native validation
        self.props = props or []

    def interesting_cps(self):
        """Code points mentioned by the pattern plus their case partners and neighbours."""
        out = set([0x61, 0x41, 0xA, 0x5F, 0x20, 0xE9, 0x20AC, 0x1F600])
        if self.alphabet:
            out |= set(self.alphabet)

        def walk(nd):
            if isinstance(nd, Lit):
                for u in (True, False):
                    out.update(eq_class(nd.c, u))
                out.add(nd.c + 1)
            elif isinstance(nd, Cls):
                for it in nd.items:
                    if isinstance(it, int):
                        for u in (True, False):
                            out.update(eq_class(it, u))
                    elif isinstance(it, tuple):
                        out.update([it[0], it[1], it[1] + 1, max(it[0] - 1, 0)])
            elif isinstance(nd, RawCls):
                for a, b in nd.ivs[:6]:
                    out.update([a, b, min(b + 1, CP_MAX), max(a - 1, 0)])
            elif isinstance(nd, Opaque):
                walk(nd.node)
            elif isinstance(nd, (Group, Look, Rep, Quant)):
                walk(nd.body)
            elif isinstance(nd, (Seq, Alt)):
                for i in nd.items:
                    walk(i)

        walk(self.node)
        out.update([0x17F, 0x212A, 0x73, 0x6B, 0x4B])
        return sorted(c for c in out if c <= CP_MAX and not (0xD800 <= c <= 0xDFFF))


S = Seq
L = Lit


def core_cases():
    """Hand-picked choice-free patterns exercising every instruction kind of the fragment."""
    c = []
    add = lambda node, flags, tag, **kw: c.append(Case(node, flags, tag, **kw))  # noqa: E731
    # literals, dot, anchors, captures, backreferences
    add(S([Start(), L("a"), Dot(), Group(L("b")), Backref(1), End()]), "", "anch_lit_dot_cap_backref")
    add(S([L("a"), Dot(), L("c")]), "s", "dot_all")
    add(S([L("é"), L("€")]), "", "multibyte_literal")
    add(S([L("😀"), Dot()]), "u", "astral_literal")
    add(S([Start(), L("x")]), "m", "multiline_start")
    add(S([L("x"), End()]), "m", "multiline_end")
    add(S([WB(), L("a"), WB(True)]), "", "word_boundaries")
    add(S([WB(), Dot(), WB()]), "iu", "word_boundary_iu")
    # case-insensitivity: literals with special partners
    for ch in ["k", "K", "\u212a", "s", "\u017f", "\u03c3", "\u03c2", "\u00df", "\u1e9e", "\u0130", "\u0131", "\u00b5",
               "\u01c5", "\u1f80", "\u0390", "\ua7ce"]:
        for f in ["i", "iu", "iv"]:
            add(S([L(ch)]), f, "icase_lit_%04X" % ord(ch))
    # brackets
    add(S([Cls([ord("k")])]), "i", "icase_cls_k_legacy")
    add(S([Cls([ord("k")])]), "iu", "icase_cls_k_u")
    add(S([Cls([ord("k")], neg=True)]), "iu", "icase_negcls_k_u")
    add(S([Cls([ord("k")], neg=True)]), "i", "icase_negcls_k_legacy")
    add(S([Cls([(ord("a"), ord("z"))])]), "i", "icase_range_legacy")
    add(S([Cls([(ord("a"), ord("z"))])]), "iu", "icase_range_u")
    add(S([Cls([(0x3B1, 0x3C9)], neg=True)]), "iu", "icase_neg_greek_u")
    add(S([Cls([Esc("d"), ord("_"), (ord("x"), ord("z"))])]), "", "cls_mixed")
    add(S([Cls([Esc("W")])]), "iu", "cls_W_iu")
    add(S([Cls([], neg=True)]), "", "cls_neg_empty")
    add(S([Cls([]), L("a")]), "", "cls_empty")
    for k in "dDwWsS":
        add(S([Esc(k)]), "", "esc_" + k)
    for k in "wW":
        add(S([Esc(k)]), "i", "esc_%s_i" % k)
        add(S([Esc(k)]), "iu", "esc_%s_iu" % k)
    # groups / backrefs
    add(S([Group(Dot()), Backref(1)]), "", "backref_any")
    add(S([Group(Dot()), Backref(1)]), "i", "backref_icase_legacy")
    add(S([Group(Dot()), Backref(1)]), "iu", "backref_icase_u")
    add(S([Backref(1), Group(L("a"))]), "", "forward_backref")
    add(S([Group(S([L("a"), Backref(1)]))]), "", "backref_inside_own_group")
    add(S([Group(L("a"), name="x"), Group(Dot(), name="y"), Backref(2)]), "", "named_groups")
    # lookarounds
    add(S([Look(L("a")), Dot()]), "", "lookahead_pos")
    add(S([Look(L("a"), neg=True), Dot()]), "", "lookahead_neg")
    add(S([Look(Group(Dot())), Backref(1)]), "", "lookahead_capture_backref")
    add(S([Look(Group(Dot()), neg=True), Backref(1), Dot()]), "", "neg_lookahead_capture_reset")
    add(S([Look(L("a"), ahead=False), L("b")]), "", "lookbehind_pos")
    add(S([Look(L("a"), ahead=False, neg=True), L("b")]), "", "lookbehind_neg")
    add(S([Look(S([L("a"), L("é")]), ahead=False), Dot()]), "", "lookbehind_seq_multibyte")
    add(S([Look(S([Group(Dot()), Group(Dot())]), ahead=False), Backref(1), Backref(2)]), "", "lookbehind_two_caps")
    add(S([Look(S([Group(Dot(), name="a"), Group(Dot(), name="b")]), ahead=False), L("z")]), "", "lookbehind_named_order")
    add(S([Look(S([Group(Dot()), Backref(1)]), ahead=False), L("z")]), "", "lookbehind_backref_bwd")
    add(S([Look(S([Backref(1), Group(Dot())]), ahead=False), L("z")]), "", "lookbehind_backref_fwdref")
    add(S([Dot(), Look(S([Start()]), ahead=False, neg=True)]), "m", "lookbehind_anchor_m")
    # exact quantifiers (choice-free loops)
    add(S([Rep(L("a"), 2)]), "", "rep_char_2")
    add(S([Rep(Dot(), 3)]), "s", "rep_dot_3")
    add(S([Rep(Cls([(ord("a"), ord("c"))]), 2), L("d")]), "", "rep_cls_2")
    add(S([Rep(Group(Dot()), 2), Backref(1)]), "", "rep_group_2_backref")
    add(S([Rep(Group(S([Backref(1), Group(L("a"))]), cap=False), 2)]), "", "rep_capture_reset")
    add(S([Rep(Group(S([L("a"), L("b")]), cap=False), 2)]), "", "rep_noncap_seq")
    add(S([Rep(L("a"), 0), L("b")]), "", "rep_zero")
    add(S([Rep(Group(L("a")), 0), Backref(1), L("b")]), "", "rep_zero_group_backref")
    add(S([Look(Rep(Dot(), 2), ahead=False), L("z")]), "", "lookbehind_rep")
    add(S([Rep(L("\u017f"), 2)]), "i", "rep_longs_legacy")
    add(S([Rep(L("k"), 2)]), "iu", "rep_k_iu")
    # longer literals (fusion / chunking) - ASCII
    add(S([L(x) for x in "abcdefghijklmnopqr"]), "", "long_literal_18")
    add(S([Look(S([L(x) for x in "abcdefghijklmnopqr"]), ahead=False), L("!")]), "", "long_literal_lookbehind")
    add(S([L(x) for x in "hello"]), "i", "icase_word")
    return c


def class_cases(depth_seed=0):
    return []
