"""Mirror-crate generator.

Every run copies /repo's *current working tree* (Cargo.toml, Cargo.lock, src/*.rs) into a
scratch directory and appends, to the copy of each module that needs it, one line

    #[cfg(kani)] #[path = "<abs path>"] mod verif_h;

so that the harness file is a *child module* of the real module and sees all of its private
items.  Nothing is written to /repo.  The encoding CBMC sees is therefore regenerated from
/repo's source on every run.
"""
import os
import re
import shutil
import hashlib

REPO = os.environ.get("VERIF_REPO", "/repo")
VERIF = os.path.dirname(os.path.dirname(os.path.abspath(__file__)))


def repo_src_digest():
    h = hashlib.sha256()
    src = os.path.join(REPO, "src")
    for name in sorted(os.listdir(src)):
        if name.endswith(".rs"):
            with open(os.path.join(src, name), "rb") as f:
                h.update(name.encode())
                h.update(f.read())
    with open(os.path.join(REPO, "Cargo.toml"), "rb") as f:
        h.update(f.read())
    return h.hexdigest()[:16]


def _cargo_toml(extra_cfgs=()):
    with open(os.path.join(REPO, "Cargo.toml")) as f:
        txt = f.read()
    # Replace the workspace table by an empty one (the mirror is its own workspace root).
    out, skipping = [], False
    for line in txt.splitlines():
        if line.strip() == "[workspace]":
            skipping = True
            continue
        if skipping and re.match(r"^\[[^\[\]]+\]\s*$", line.strip()):
            skipping = False
        if not skipping:
            out.append(line)
    txt = "\n".join(out) + "\n\n[workspace]\n"
    cfgs = ["cfg(kani)", "cfg(verif_playback)", "cfg(verif_native)"] + list(extra_cfgs)
    txt += "\n[lints.rust]\nunexpected_cfgs = { level = \"allow\", check-cfg = [%s] }\n" % ", ".join(
        "'%s'" % c for c in cfgs
    )
    return txt


ORACLE_MOD = r'''
/// Injected by /verif/lib/mirror.py into the COPY of lib.rs (never into /repo): the "arbitrary deterministic
/// engine" table shared by the harnesses that stub `try_at_pos` (C09, C17, C20).  END[offset] = None: no match
/// at that offset; Some(e): a match ending at byte offset e.  usize::MAX-like poison marks offsets that correct
/// code never queries.
#[cfg(kani)]
#[allow(dead_code, static_mut_refs)]
pub(crate) mod verif_oracle {
    use crate::indexing::InputIndexer;
    pub const SLOTS: usize = 17;
    pub const POISON: usize = 1000;
    pub static mut VERIF_ORACLE_END: [Option<usize>; SLOTS] = [Some(POISON); SLOTS];
    // One array with a unique initial content instead of separate `static mut` scalars: Kani 0.68 merges a
    // `static mut X: usize = 0` (or bool) with constant allocations of the same content in std (observed: the
    // haystack length written here showed up as `RawVec`'s `Cap::ZERO`, i.e. every empty Vec had capacity 4
    // and "freed" a dangling pointer - spurious __rust_dealloc failures that never replay natively).
    pub static mut VERIF_ORACLE_STATE: [u64; 3] = [0x5EED_0A0B_0C0D_0001, 0x5EED_0A0B_0C0D_0002, 0x5EED_0A0B_0C0D_0003];
    const BAD: u64 = 0xBAD0_BAD0_BAD0_BAD0;
    const ON: u64 = 0x0A0A_0A0A_0A0A_0A0A;

    pub fn set_haylen(n: usize) {
        unsafe { VERIF_ORACLE_STATE[0] = n as u64 }
    }
    pub fn haylen() -> usize {
        unsafe { VERIF_ORACLE_STATE[0] as usize }
    }
    pub fn reset_calls() {
        unsafe { VERIF_ORACLE_STATE[1] = 0 }
    }
    pub fn mark_bad() {
        unsafe { VERIF_ORACLE_STATE[1] = BAD }
    }
    pub fn calls_ok() -> bool {
        unsafe { VERIF_ORACLE_STATE[1] != BAD }
    }
    pub fn set_active() {
        unsafe { VERIF_ORACLE_STATE[2] = ON }
    }
    pub fn active() -> bool {
        unsafe { VERIF_ORACLE_STATE[2] == ON }
    }

    pub fn lookup<I: InputIndexer>(inp: &I, pos: I::Position) -> Option<I::Position> {
        let off = inp.pos_to_offset(pos);
        unsafe {
            if inp.right_end() - inp.left_end() != haylen() {
                mark_bad();
            }
            match VERIF_ORACLE_END[off] {
                None => None,
                Some(e) => match inp.try_move_right(inp.left_end(), e) {
                    Some(p) => Some(p),
                    None => {
                        mark_bad();
                        None
                    }
                },
            }
        }
    }
}
'''

# Appended to the COPY of classicalbacktrack.rs (cfg kani only): models that harnesses of OTHER modules may use
# as Kani stubs for two private functions of BacktrackExecutor.  They live here because they need the private
# fields.  Each model is itself checked against the real function by the C09 harnesses (same oracle table).
BT_MODEL_MOD = r'''
#[cfg(kani)]
#[allow(dead_code)]
pub(crate) mod verif_model {
    use super::*;
    use crate::verif_oracle as vo;

    /// Model of `BacktrackExecutor::successful_match` for a regex WITHOUT capture groups: the match range
    /// converted to byte offsets, no captures, no names.
    pub fn successful_match_model<'a: 'a, Input: InputIndexer>(
        this: &mut BacktrackExecutor<'a, Input>,
        start: Input::Position,
        end: Input::Position,
    ) -> Match {
        if this.matcher.s.groups.len() != 0 || this.matcher.re.group_names.len() != 0 {
            unsafe {
                vo::mark_bad();
            }
        }
        Match {
            range: this.input.pos_to_offset(start)..this.input.pos_to_offset(end),
            captures: Vec::new(),
            group_names: Box::new([]),
        }
    }
}
'''

# playback only: route the real try_at_pos through the same table (Kani does not apply #[kani::stub] to
# concrete playback tests, so without this a counterexample of a stubbed harness could not be replayed)
HOOK_BT = '''
        #[cfg(kani)]
        if crate::verif_oracle::active() {
            if ip != 0 || self.bts.len() != 1 {
                crate::verif_oracle::mark_bad();
            }
            return crate::verif_oracle::lookup(&inp, pos);
        }
'''
HOOK_PIKE = '''
        #[cfg(kani)]
        if crate::verif_oracle::active() {
            if init_state.ip != 0 {
                crate::verif_oracle::mark_bad();
            }
            return match crate::verif_oracle::lookup(&input, init_state.pos) {
                Some(p) => {
                    init_state.pos = p;
                    true
                }
                None => false,
            };
        }
'''


def _insert_hook(body, hook):
    """Insert `hook` as the first statements of `fn try_at_pos<Dir: Direction>(...)`.  Returns (text, ok)."""
    m = re.search(r"fn try_at_pos<Dir: Direction>\(", body)
    if not m:
        return body, False
    # the body starts at the first '{' that follows the closing ')' of the parameter list at depth 0
    i = m.end()
    depth = 1
    while i < len(body) and depth:
        depth += {"(": 1, ")": -1}.get(body[i], 0)
        i += 1
    j = body.index("{", i)
    return body[:j + 1] + hook + body[j + 1:], True


def make_mirror(dest, harness_mods, cfg="kani", top_mod=None, extra_lib_lines=(), playback_hook=False):
    """Create the mirror crate in `dest`.

    harness_mods: dict module_name (e.g. "api") -> absolute path of the harness file that
                  becomes `mod verif_h` inside that module.
    cfg:          the cfg that guards the appended `mod` line ("kani" for Kani runs,
                  "verif_native" for the native dump/oracle-validation build).
    top_mod:      optional absolute path of a crate-level harness module (`crate::verif_top`).
    """
    if os.path.exists(dest):
        shutil.rmtree(dest)
    os.makedirs(os.path.join(dest, "src"))
    with open(os.path.join(dest, "Cargo.toml"), "w") as f:
        f.write(_cargo_toml())
    shutil.copy(os.path.join(REPO, "Cargo.lock"), os.path.join(dest, "Cargo.lock"))
    os.makedirs(os.path.join(dest, ".cargo"))
    with open(os.path.join(dest, ".cargo", "config.toml"), "w") as f:
        f.write("[net]\noffline = true\n")
    src = os.path.join(REPO, "src")
    present = set()
    for name in sorted(os.listdir(src)):
        if not name.endswith(".rs"):
            continue
        present.add(name[:-3])
        with open(os.path.join(src, name)) as f:
            body = f.read()
        mod = name[:-3]
        if mod in harness_mods:
            body += '\n#[cfg(%s)]\n#[path = "%s"]\nmod %s;\n' % (cfg, harness_mods[mod], "verif_top" if mod == "lib" else "verif_h")
        if playback_hook and mod == "classicalbacktrack":
            body, ok = _insert_hook(body, HOOK_BT)
        if playback_hook and mod == "pikevm":
            body, ok = _insert_hook(body, HOOK_PIKE)
        if mod == "classicalbacktrack" and cfg == "kani":
            body += BT_MODEL_MOD
        if mod == "lib":
            if cfg == "kani":
                body += ORACLE_MOD
            if top_mod:
                body += '\n#[cfg(%s)]\n#[path = "%s"]\npub mod verif_top;\n' % (cfg, top_mod)
            for line in extra_lib_lines:
                body += line + "\n"
        with open(os.path.join(dest, "src", name), "w") as f:
            f.write(body)
    missing = [m for m in harness_mods if m not in present]
    return missing
