"""Mirror-crate generator.

Every run copies /repo's *current working tree* (Cargo.toml, Cargo.lock, src/*.rs) into a
scratch directory and appends, to the copy of each module that needs it, one line

    #[cfg(kani)] #[path = "<abs path>"] mod verif_h;

so that the harness file is a *child module* of the real module and sees all of its private
items.  Nothing is written to /repo.  The encoding CBMC sees is therefore regenerated from
/repo's source on every run.
"""
import os
import re
import shutil
import hashlib

REPO = os.environ.get("VERIF_REPO", "/repo")
VERIF = os.path.dirname(os.path.dirname(os.path.abspath(__file__)))


def repo_src_digest():
    h = hashlib.sha256()
    src = os.path.join(REPO, "src")
    for name in sorted(os.listdir(src)):
        if name.endswith(".rs"):
            with open(os.path.join(src, name), "rb") as f:
                h.update(name.encode())
                h.update(f.read())
    with open(os.path.join(REPO, "Cargo.toml"), "rb") as f:
        h.update(f.read())
    return h.hexdigest()[:16]


def _cargo_toml(extra_cfgs=()):
    with open(os.path.join(REPO, "Cargo.toml")) as f:
        txt = f.read()
    # Replace the workspace table by an empty one (the mirror is its own workspace root).
    out, skipping = [], False
    for line in txt.splitlines():
        if line.strip() == "[workspace]":
            skipping = True
            continue
        if skipping and re.match(r"^\[[^\[\]]+\]\s*$", line.strip()):
            skipping = False
        if not skipping:
            out.append(line)
    txt = "\n".join(out) + "\n\n[workspace]\n"
    cfgs = ["cfg(kani)", "cfg(verif_playback)", "cfg(verif_native)"] + list(extra_cfgs)
    txt += "\n[lints.rust]\nunexpected_cfgs = { level = \"allow\", check-cfg = [%s] }\n" % ", ".join(
        "'%s'" % c for c in cfgs
    )
    return txt


def make_mirror(dest, harness_mods, cfg="kani", top_mod=None, extra_lib_lines=()):
    """Create the mirror crate in `dest`.

    harness_mods: dict module_name (e.g. "api") -> absolute path of the harness file that
                  becomes `mod verif_h` inside that module.
    cfg:          the cfg that guards the appended `mod` line ("kani" for Kani runs,
                  "verif_native" for the native dump/oracle-validation build).
    top_mod:      optional absolute path of a crate-level harness module (`crate::verif_top`).
    """
    if os.path.exists(dest):
        shutil.rmtree(dest)
    os.makedirs(os.path.join(dest, "src"))
    with open(os.path.join(dest, "Cargo.toml"), "w") as f:
        f.write(_cargo_toml())
    shutil.copy(os.path.join(REPO, "Cargo.lock"), os.path.join(dest, "Cargo.lock"))
    os.makedirs(os.path.join(dest, ".cargo"))
    with open(os.path.join(dest, ".cargo", "config.toml"), "w") as f:
        f.write("[net]\noffline = true\n")
    src = os.path.join(REPO, "src")
    present = set()
    for name in sorted(os.listdir(src)):
        if not name.endswith(".rs"):
            continue
        present.add(name[:-3])
        with open(os.path.join(src, name)) as f:
            body = f.read()
        mod = name[:-3]
        if mod in harness_mods:
            body += '\n#[cfg(%s)]\n#[path = "%s"]\nmod %s;\n' % (cfg, harness_mods[mod], "verif_top" if mod == "lib" else "verif_h")
        if mod == "lib":
            if top_mod:
                body += '\n#[cfg(%s)]\n#[path = "%s"]\npub mod verif_top;\n' % (cfg, top_mod)
            for line in extra_lib_lines:
                body += line + "\n"
        with open(os.path.join(dest, "src", name), "w") as f:
            f.write(body)
    missing = [m for m in harness_mods if m not in present]
    return missing
