#!/bin/bash
# usage: try_seed.sh <seed-id> <command...>   applies the seeded patch to /repo, runs the command, restores /repo
ID=$1; shift
cd /repo && git apply /verif/seeded/$ID/patch.diff || { echo "patch does not apply"; exit 3; }
( cd /verif && "$@" ); RC=$?
cd /repo && git checkout -- . 
echo "== seed $ID: exit $RC"
exit $RC
