#!/bin/bash
# usage: confirm_seed.sh <worktree> <seed-id> [features]
# Confirms a seeded mutant produced by a sub-agent: patch applies to a clean checkout, crate compiles,
# existing suite passes with it, demo fails with it and passes without it.  On success stores it under
# /verif/seeded/<seed-id>/.
set -u
WT=$1; ID=$2; FEAT=${3:-}
OUT=/verif/seeded/$ID
export CARGO_TARGET_DIR=$WT/target CARGO_NET_OFFLINE=true
cd $WT || exit 2
LOG=$WT/seed_out/confirm.log; : > $LOG
git checkout -q -- src tests 2>>$LOG; rm -f tests/seed_demo.rs
git apply --check seed_out/patch.diff 2>>$LOG || { echo "FAIL: patch does not apply cleanly"; exit 1; }
FEATARG=""; [ -n "$FEAT" ] && FEATARG="--features $FEAT"
TC=""; case "$FEAT" in *pattern*) TC="+nightly";; esac
# demo without patch -> must pass
cp seed_out/demo.rs tests/seed_demo.rs
if ! cargo $TC test --offline -j 6 $FEATARG --test seed_demo >>$LOG 2>&1; then echo "FAIL: demo fails WITHOUT the patch"; rm -f tests/seed_demo.rs; exit 1; fi
rm -f tests/seed_demo.rs
git apply seed_out/patch.diff
# suite with patch -> must pass
if ! cargo test --workspace --no-fail-fast --offline -j 6 >>$LOG 2>&1; then echo "FAIL: existing suite fails with the patch"; exit 1; fi
NPASS=$(grep -E "^test result: ok" $LOG | awk '{s+=$4} END{print s}')
cp seed_out/demo.rs tests/seed_demo.rs
if cargo $TC test --offline -j 6 $FEATARG --test seed_demo >>$LOG 2>&1; then echo "FAIL: demo passes WITH the patch"; rm -f tests/seed_demo.rs; exit 1; fi
rm -f tests/seed_demo.rs
mkdir -p $OUT
cp seed_out/patch.diff $OUT/patch.diff; cp seed_out/demo.rs $OUT/demo.rs
python3 - "$WT/seed_out/meta.json" "$OUT/meta.json" "$ID" "$FEAT" <<'PY'
import json,sys
src,dst,sid,feat=sys.argv[1:5]
try: m=json.load(open(src))
except Exception as e: m={"note":"agent meta.json unreadable: %s"%e}
m["seed_id"]=sid
m["confirmed_by_me"]={"patch_applies_to_clean_HEAD":True,"suite_passes_with_patch":True,"demo_passes_without_patch":True,"demo_fails_with_patch":True,
  "commands":["git apply --check patch.diff","cargo test --offline --test seed_demo (clean tree) -> pass","git apply patch.diff; cargo test --workspace --no-fail-fast --offline -> all pass","cargo test --offline --test seed_demo (patched) -> fails"],"demo_features":feat}
json.dump(m,open(dst,"w"),indent=1)
PY
echo "CONFIRMED $ID (suite ok-count sum incl. demo runs: $NPASS) -> $OUT"
