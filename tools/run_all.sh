#!/bin/bash
# usage: run_all.sh <tier> [ids...]   runs the registered checks one after another, logs to /tmp/vs/all_<id>.log
TIER=${1:-quick}; shift
IDS=${@:-$(python3 -c "import json; print(' '.join(c['property_id'] for c in json.load(open('/verif/MANIFEST.json'))['checks']))")}
cd /verif
for id in $IDS; do
  t0=$(date +%s)
  ./check $id --tier $TIER > /tmp/vs/all_$id.log 2>&1; rc=$?
  t1=$(date +%s)
  echo "$id rc=$rc $((t1-t0))s" | tee -a /tmp/vs/all_summary.log
done
