#!/usr/bin/env python3
"""Native sanity run of the generated oracles against the real engine (not a check; a development aid)."""
import os, sys, shutil, tempfile
sys.path.insert(0, os.path.join(os.path.dirname(os.path.abspath(__file__)), "..", "lib"))
import corpus, engine_gen, native
scratch = tempfile.mkdtemp(prefix="verif_pre_")
try:
    d = native.Dumper(scratch)
    g = os.path.join(scratch, "gen"); os.makedirs(g)
    cases = corpus.core_cases() + corpus.class_cases()
    info = engine_gen.generate(g, cases, d, nmax=int(os.environ.get("NMAX", "2")), variants=("bt_opt", "bt_noopt"), scratch=scratch)
    d.close()
    print("harnesses:", len(info["cases"]), "skipped:", len(info["skipped"]), "rejected:", len(info["rejected"]))
    for s in info["skipped"]: print("  skipped", s["src"], s["flags"], s["variant"], s["reason"])
    for s in info["rejected"]: print("  rejected", s)
finally:
    shutil.rmtree(scratch, ignore_errors=True)
