#!/bin/bash
# usage: eval_seed_wt.sh <seed-id> <check-id> [tier] [extra check args...]
# Same as eval_seed.sh but leaves /repo alone: the seeded change is applied to a throw-away git worktree of
# /repo's HEAD and the check is pointed at it with VERIF_REPO (lets several evaluations run side by side
# while /repo itself is being checked).  Outcome: /verif/seeded/<seed-id>/result_<check-id>.json
ID=$1; CHK=$2; TIER=${3:-quick}; shift; shift; shift
WT=/tmp/wt_seed_${ID}_${CHK}
git -C /repo worktree remove --force $WT >/dev/null 2>&1
git -C /repo worktree add --detach $WT HEAD >/dev/null 2>&1 || { echo "cannot create worktree"; exit 3; }
cp /repo/Cargo.lock $WT/
git -C $WT apply /verif/seeded/$ID/patch.diff || { echo "patch does not apply"; git -C /repo worktree remove --force $WT; exit 3; }
mkdir -p /tmp/vs
LOG=/tmp/vs/seed_${ID}_${CHK}.log
t0=$(date +%s)
( cd /verif && VERIF_REPO=$WT VERIF_EVIDENCE_DIR=/tmp/vs/ev_seed_${ID} VERIF_REPLAY_DIR=/tmp/vs/replays_seed ./check $CHK --tier $TIER "$@" ) > $LOG 2>&1; RC=$?
t1=$(date +%s)
git -C /repo worktree remove --force $WT
python3 - "$ID" "$CHK" "$TIER" "$RC" "$((t1-t0))" "$LOG" "$*" <<'PY'
import json,sys,re
sid,chk,tier,rc,secs,log,extra=sys.argv[1:8]
txt=open(log,errors='replace').read()
viol=[l for l in txt.splitlines() if l.startswith('VIOLATION')]
inc=[l for l in txt.splitlines() if l.startswith('INCONCLUSIVE')]
res=dict(seed=sid,check=chk,tier=tier,extra_args=extra,exit_code=int(rc),seconds=int(secs),detected=(int(rc)==1 and len(viol)>0),
         violation_lines=[v[:400] for v in viol[:6]],inconclusive=[i[:300] for i in inc[:6]])
json.dump(res,open('/verif/seeded/%s/result_%s.json'%(sid,chk),'w'),indent=1)
print(sid,chk,'exit',rc,'detected' if res['detected'] else 'NOT detected', secs,'s', (viol[0][:200] if viol else ''))
PY
