#!/bin/bash
# usage: eval_seed.sh <seed-id> <check-id> [tier] [extra check args...]
# Applies the seeded change to /repo, runs the check, restores /repo, records the outcome in
# /verif/seeded/<seed-id>/result_<check-id>.json
ID=$1; CHK=$2; TIER=${3:-quick}; shift; shift; shift
cd /repo || exit 3
if ! git diff --quiet; then echo "/repo has uncommitted changes; refusing"; exit 3; fi
git apply /verif/seeded/$ID/patch.diff || { echo "patch does not apply"; exit 3; }
LOG=/tmp/vs/seed_${ID}_${CHK}.log
t0=$(date +%s)
( cd /verif && VERIF_EVIDENCE_DIR=/tmp/vs/ev_seed VERIF_REPLAY_DIR=/tmp/vs/replays_seed ./check $CHK --tier $TIER "$@" ) > $LOG 2>&1; RC=$?
t1=$(date +%s)
git checkout -- .
python3 - "$ID" "$CHK" "$TIER" "$RC" "$((t1-t0))" "$LOG" "$*" <<'PY'
import json,sys,re
sid,chk,tier,rc,secs,log,extra=sys.argv[1:8]
txt=open(log,errors='replace').read()
viol=[l for l in txt.splitlines() if l.startswith('VIOLATION')]
inc=[l for l in txt.splitlines() if l.startswith('INCONCLUSIVE')]
res=dict(seed=sid,check=chk,tier=tier,extra_args=extra,exit_code=int(rc),seconds=int(secs),detected=(int(rc)==1 and len(viol)>0),
         violation_lines=[v[:400] for v in viol[:6]],inconclusive=[i[:300] for i in inc[:6]])
json.dump(res,open('/verif/seeded/%s/result_%s.json'%(sid,chk),'w'),indent=1)
print(sid,chk,'exit',rc,'detected' if res['detected'] else 'NOT detected', secs,'s', (viol[0][:200] if viol else ''))
PY
