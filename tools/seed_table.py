#!/usr/bin/env python3
"""Prints the markdown table of DESIGN.md section 9 from /verif/seeded/*/meta.json and result_*.json."""
import glob, json, os, re
rows = []
for d in sorted(glob.glob("/verif/seeded/*/")):
    sid = os.path.basename(d.rstrip("/"))
    meta = json.load(open(d + "meta.json"))
    summ = re.sub(r"\s+", " ", meta.get("summary", ""))[:150]
    res = []
    for r in sorted(glob.glob(d + "result_*.json")):
        j = json.load(open(r))
        if j["detected"]:
            v = j["violation_lines"][0]
            how = re.search(r"(harness=\w+|smt-mode=\w+ pattern=\S+|native)", v)
            res.append("%s %s: **caught** (%s, %ds)" % (j["check"], j["tier"], how.group(1) if how else "?", j["seconds"]))
        else:
            res.append("%s %s: not caught (exit %d%s)" % (j["check"], j["tier"], j["exit_code"],
                                                          "; " + j["inconclusive"][0][:80] if j["inconclusive"] else ""))
    rows.append("| %s | %s | %s |" % (sid, summ.replace("|", "/"), "<br>".join(res) or "not evaluated"))
print("| seeded change | what it does | checks run against it |\n|---|---|---|")
print("\n".join(rows))
