#!/usr/bin/env python3
"""Rewrites section 9 of DESIGN.md from the seeded/*/result_*.json files."""
import subprocess
p = "/verif/DESIGN.md"
s = open(p).read()
marker = "## 9. Seeded changes: which check catches which"
if marker in s:
    s = s[:s.index(marker)].rstrip() + "\n"
table = subprocess.run(["python3", "/verif/tools/seed_table.py"], stdout=subprocess.PIPE, text=True).stdout
s += """
--------------------------------------------------------------------------------

""" + marker + """

Each change below was produced by a fresh sub-agent that saw only the text of one property and a scratch git
worktree of /repo (nothing from /verif), and was kept only after `tools/confirm_seed.sh` had confirmed in a
scratch worktree that it applies to a clean checkout, compiles, passes the whole existing suite (545 tests), and
that its demonstration passes without and fails with the change.  `seeded/<id>/` holds patch.diff, demo.rs,
meta.json and one `result_<check>.json` per evaluation (`tools/eval_seed.sh`: apply to /repo, run the check,
`git checkout -- .`; `tools/eval_seed_wt.sh`: the same on a throw-away worktree via VERIF_REPO, used to evaluate
several changes side by side while /repo itself was being checked).  None of them is committed in /repo.

""" + table + """
Notes
* Checks strengthened after a miss (the seed was then re-evaluated): C16 (`c16_accessors_n3_dups`: three holders of
  one name), C14 (playback of harnesses that live in a nested module), C11 (tables are fetched through the real
  dispatcher, not from `unicodetables` directly), C13 (`C13n`: unoptimised programs keep `Insn::Char` for
  non-Latin1 literals; validation mismatches are decided on the real code), C09 (SMT mode C09: the table engine
  cannot see state leaking between the matches of one iterator; the SMT verdict is kept when a change to a private
  struct makes the harness crate uncompilable), C12 (Annex B `\\d-a-z` shapes), C04 (optional groups that begin with
  `^`), C03 (loops over multi-character literal groups), C06 (SMT mode C06: real entry points on solver witnesses
  must return valid char-boundary ranges; `\\q{..}` members under `iv`), C15 (`c10_backref_icase_fwd` joined C15's
  quick tier under index_safe), C18/C17/C20 (harnesses made feasible at all: String capacity model,
  index-positions build, per-N bounds).  The table shows the LATEST evaluation per (change, check); the first evaluations of
  C16-namedgroups-third-dup, C14-utf16-next-left-pos-offset2, C11-scx-common-inherited, C13-char-arm-question-mark,
  C04-optional-loop-start-anchored, C09-loop-count-leak-across-matches (harness crate did not compile: exit 2),
  C15-backref-icase-index-positions and C18-escape-truncating-cast were misses or
  inconclusive and led to the strengthenings above.
* C07, C08 and C19 are not claimed (MANIFEST not_applicable); their seeds are kept to document what the
  machinery does NOT see: C08 (parser pre-scan of nested brackets) and C19 (a per-bracket memo behind an atomic)
  are invisible to every check; C07 (AsciiBitmap::set(128)) is reported by the C12/C06 kernel
  `c12_bracket_as_ascii_*` because that kernel has the panic path in scope.
* `C12-intersect-nested-qstring` stopped being a property-breaking change after the repair c52b345 (see its
  meta.json); a silent check is the right answer there.
* A detection through an SMT mode is a solver counterexample replayed on the real engine, or (where the line says
  "translator validation") a concrete validation run decided on the real code alone; both print the replay file.
"""
open(p, "w").write(s)
