#!/bin/bash
# usage: run_pairs.sh <tier> <ids...>   runs the registered checks two at a time (each with half of the memory budget)
TIER=$1; shift
cd /verif
run() { id=$1; t0=$(date +%s); VERIF_MEM_GB=26 ./check $id --tier $TIER > /tmp/vs/all_$id.log 2>&1; rc=$?; t1=$(date +%s); echo "$id rc=$rc $((t1-t0))s" >> /tmp/vs/all_summary.log; }
while [ $# -gt 0 ]; do
  a=$1; shift
  run $a &
  if [ $# -gt 0 ]; then b=$1; shift; run $b & fi
  wait
done
