//! Generates the oracle tables used by the Kani harnesses.  Sources, all independent of
//! /repo/src/unicodetables.rs and of /repo/gen-unicode:
//!   * regex-syntax 0.8.11 (cargo registry): Unicode 16.0.0 tables produced by ucd-generate
//!     (simple case folding classes, Age, general categories, scripts, script extensions,
//!     boolean properties);
//!   * the Rust standard library of the native toolchain (Unicode 17.0.0): to_lowercase /
//!     to_uppercase / is_alphabetic / is_lowercase / is_uppercase / is_whitespace /
//!     is_control / is_numeric.
//! The RS_TABLES environment variable (compile time) is the path of
//! regex-syntax/src/unicode_tables.
#![allow(dead_code)]

mod rs_age {
    include!(concat!(env!("RS_TABLES"), "/age.rs"));
}
mod rs_fold {
    include!(concat!(env!("RS_TABLES"), "/case_folding_simple.rs"));
}
mod rs_gc {
    include!(concat!(env!("RS_TABLES"), "/general_category.rs"));
}
mod rs_sc {
    include!(concat!(env!("RS_TABLES"), "/script.rs"));
}
mod rs_scx {
    include!(concat!(env!("RS_TABLES"), "/script_extension.rs"));
}
mod rs_bool {
    include!(concat!(env!("RS_TABLES"), "/property_bool.rs"));
}

use std::collections::BTreeMap;
use std::fmt::Write as _;

const MAX: u32 = 0x10FFFF;

fn in_ranges(r: &[(char, char)], c: char) -> bool {
    r.binary_search_by(|&(a, b)| {
        if a > c {
            std::cmp::Ordering::Greater
        } else if b < c {
            std::cmp::Ordering::Less
        } else {
            std::cmp::Ordering::Equal
        }
    })
    .is_ok()
}

fn assigned_in_16(c: char) -> bool {
    rs_age::BY_NAME.iter().any(|(_, r)| in_ranges(r, c))
}

struct Uf(Vec<u32>);
impl Uf {
    fn find(&mut self, x: u32) -> u32 {
        let mut r = x;
        while self.0[r as usize] != r {
            r = self.0[r as usize];
        }
        let mut y = x;
        while self.0[y as usize] != r {
            let n = self.0[y as usize];
            self.0[y as usize] = r;
            y = n;
        }
        r
    }
    fn union(&mut self, a: u32, b: u32) {
        let (ra, rb) = (self.find(a), self.find(b));
        if ra != rb {
            let (lo, hi) = if ra < rb { (ra, rb) } else { (rb, ra) };
            self.0[hi as usize] = lo; // representative = smallest member
        }
    }
}

fn single(mut it: impl Iterator<Item = char>) -> Option<char> {
    let a = it.next()?;
    if it.next().is_some() {
        None
    } else {
        Some(a)
    }
}

fn intervals_of(pred: impl Fn(u32) -> bool) -> Vec<(u32, u32)> {
    let mut out: Vec<(u32, u32)> = Vec::new();
    for c in 0..=MAX {
        if pred(c) {
            match out.last_mut() {
                Some(l) if l.1 + 1 == c => l.1 = c,
                _ => out.push((c, c)),
            }
        }
    }
    out
}

fn emit_pairs(out: &mut String, name: &str, doc: &str, v: &[(u32, u32)]) {
    writeln!(out, "/// {}", doc).unwrap();
    writeln!(out, "pub static {}: [(u32, u32); {}] = [", name, v.len()).unwrap();
    for ch in v.chunks(6) {
        let line: Vec<String> = ch.iter().map(|(a, b)| format!("(0x{:X}, 0x{:X})", a, b)).collect();
        writeln!(out, "    {},", line.join(", ")).unwrap();
    }
    writeln!(out, "];").unwrap();
}

fn sanitize(name: &str) -> String {
    name.to_ascii_uppercase().replace(|c: char| !c.is_ascii_alphanumeric(), "_")
}

fn main() {
    let outdir = std::env::args().nth(1).expect("usage: oraclegen <outdir>");

    // ---------------- simple case folding classes (u/v mode) ----------------
    let mut uf = Uf((0..=MAX).collect());
    for (c, others) in rs_fold::CASE_FOLDING_SIMPLE {
        assert!(assigned_in_16(*c));
        for o in *others {
            uf.union(*c as u32, *o as u32);
        }
    }
    // Code points first assigned after 16.0: derive the class from std (Unicode 17).
    let mut new17 = Vec::new();
    for cp in 0..=MAX {
        let Some(c) = char::from_u32(cp) else { continue };
        if assigned_in_16(c) {
            continue;
        }
        let l = single(c.to_lowercase());
        let u = single(c.to_uppercase());
        for o in [l, u].into_iter().flatten() {
            if o != c {
                uf.union(cp, o as u32);
                new17.push(cp);
            }
        }
    }
    let mut fold_rep: Vec<(u32, u32)> = Vec::new();
    let mut class_members: BTreeMap<u32, Vec<u32>> = BTreeMap::new();
    for cp in 0..=MAX {
        let r = uf.find(cp);
        class_members.entry(r).or_default().push(cp);
    }
    for (r, m) in &class_members {
        if m.len() > 1 {
            for &cp in m {
                fold_rep.push((cp, *r));
            }
        }
    }
    fold_rep.sort();
    // Non-ASCII-word code points whose class contains an ASCII word character.
    let is_word = |c: u32| {
        (0x30..=0x39).contains(&c) || (0x41..=0x5A).contains(&c) || (0x61..=0x7A).contains(&c) || c == 0x5F
    };
    let mut folds_to_word = Vec::new();
    for (_, m) in &class_members {
        if m.len() > 1 && m.iter().any(|&c| is_word(c)) {
            for &c in m {
                if !is_word(c) {
                    folds_to_word.push((c, c));
                }
            }
        }
    }

    // ---------------- legacy canonicalisation (no u/v) ----------------
    // ES2025 22.2.2.7.3 Canonicalize, non-unicode branch: cu = toUppercase(ch); if it is not a
    // single code point return ch; if ch >= 128 and cu < 128 return ch; return cu.
    let mut upper_canon = Vec::new();
    for cp in 0..=MAX {
        let Some(c) = char::from_u32(cp) else { continue };
        if let Some(u) = single(c.to_uppercase()) {
            let u = u as u32;
            if u != cp && !(cp >= 128 && u < 128) {
                upper_canon.push((cp, u));
            }
        }
    }
    // Where the std "full" upper-casing is multi-character the legacy rule keeps ch; record the
    // code points for which a *simple* single-character mapping would nevertheless exist (these are
    // the inputs on which an implementation that uses UnicodeData's Simple_Uppercase_Mapping
    // differs from the ES rule).  Purely informational.
    let mut multi_upper = Vec::new();
    for cp in 0..=MAX {
        let Some(c) = char::from_u32(cp) else { continue };
        if c.to_uppercase().count() > 1 {
            multi_upper.push((cp, cp));
        }
    }

    let mut s = String::new();
    writeln!(s, "// GENERATED by /verif/native/oraclegen - do not edit.").unwrap();
    writeln!(s, "// Sources: regex-syntax 0.8.11 (Unicode 16.0.0, ucd-generate) + native std (Unicode {}.{}.{}).",
        std::char::UNICODE_VERSION.0, std::char::UNICODE_VERSION.1, std::char::UNICODE_VERSION.2).unwrap();
    emit_pairs(&mut s, "FOLD_REP", "(code point, smallest member of its simple-case-folding class), for every code point whose class has more than one member; sorted by code point.", &fold_rep);
    emit_pairs(&mut s, "FOLDS_TO_ASCII_WORD", "non-ASCII-word code points whose simple-case-folding class contains an ASCII word character (as degenerate intervals).", &folds_to_word);
    emit_pairs(&mut s, "UPPER_CANON", "(code point, ES legacy Canonicalize(code point)) wherever that differs from the code point; sorted.", &upper_canon);
    emit_pairs(&mut s, "MULTI_UPPER", "code points whose full upper-casing is multi-character (degenerate intervals).", &multi_upper);
    emit_pairs(&mut s, "NEW_IN_17_CASED", "code points not assigned in Unicode 16.0 that take part in a case pair in Unicode 17 (informational).", &new17.iter().map(|&c| (c, c)).collect::<Vec<_>>());
    std::fs::write(format!("{}/fold_oracle.rs", outdir), &s).unwrap();

    // ---------------- property tables ----------------
    let mut p = String::new();
    writeln!(p, "// GENERATED by /verif/native/oraclegen - do not edit.").unwrap();
    let age16 = intervals_of(|c| char::from_u32(c).map_or(false, assigned_in_16));
    emit_pairs(&mut p, "ASSIGNED_16", "code points assigned (Age present) in Unicode 16.0.0", &age16);
    // std (Unicode 17) exact oracles
    let std_tabs: Vec<(&str, Box<dyn Fn(char) -> bool>)> = vec![
        ("STD17_ALPHABETIC", Box::new(|c: char| c.is_alphabetic())),
        ("STD17_LOWERCASE", Box::new(|c: char| c.is_lowercase())),
        ("STD17_UPPERCASE", Box::new(|c: char| c.is_uppercase())),
        ("STD17_WHITE_SPACE", Box::new(|c: char| c.is_whitespace())),
        ("STD17_CC", Box::new(|c: char| c.is_control())),
        ("STD17_N", Box::new(|c: char| c.is_numeric())),
    ];
    for (name, f) in &std_tabs {
        let iv = intervals_of(|c| char::from_u32(c).map_or(false, |ch| f(ch)));
        emit_pairs(&mut p, name, "from the native standard library (Unicode 17)", &iv);
    }
    let conv = |r: &[(char, char)]| r.iter().map(|&(a, b)| (a as u32, b as u32)).collect::<Vec<_>>();
    let mut index = String::new();
    for (kind, tabs) in [("GC", rs_gc::BY_NAME), ("SC", rs_sc::BY_NAME), ("SCX", rs_scx::BY_NAME), ("BIN", rs_bool::BY_NAME)] {
        writeln!(index, "pub static U16_{}_BY_NAME: [(&str, &[(u32, u32)]); {}] = [", kind, tabs.len()).unwrap();
        for (name, r) in tabs.iter() {
            let id = format!("U16_{}_{}", kind, sanitize(name));
            emit_pairs(&mut p, &id, &format!("Unicode 16.0.0 {} {}", kind, name), &conv(r));
            writeln!(index, "    (\"{}\", &{}),", name, id).unwrap();
        }
        writeln!(index, "];").unwrap();
    }
    p.push_str(&index);
    std::fs::write(format!("{}/props_oracle.rs", outdir), &p).unwrap();
    eprintln!(
        "oraclegen: {} fold rows, {} legacy rows, {} new-in-17 cased, {} multi-upper",
        fold_rep.len(), upper_canon.len(), new17.len(), multi_upper.len()
    );
}
