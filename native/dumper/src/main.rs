//! Native helper: reads one JSON-ish request per line on stdin (fields separated by TAB to avoid a
//! JSON parser dependency) and answers with one JSON line each.
//!   dump <TAB> flags <TAB> no_opt(0/1) <TAB> cp,cp,cp...
//!   find <TAB> flags <TAB> no_opt(0/1) <TAB> cp,cp,... <TAB> start <TAB> haycp,haycp,...
use std::io::{BufRead, Write};

fn cps(s: &str) -> Vec<u32> {
    if s.is_empty() {
        return vec![];
    }
    s.split(',').map(|x| x.parse().unwrap()).collect()
}

fn main() {
    let stdin = std::io::stdin();
    let out = std::io::stdout();
    let mut out = out.lock();
    for line in stdin.lock().lines() {
        let line = line.unwrap();
        let f: Vec<&str> = line.split('\t').collect();
        let res = match f[0] {
            "dump" => regress::verif_top::dump_json(&cps(f[3]), f[1], f[2] == "1"),
            "find" => {
                let hay: String = cps(f[5]).into_iter().map(|c| char::from_u32(c).unwrap()).collect();
                regress::verif_top::find_from_json(&cps(f[3]), f[1], f[2] == "1", &hay, f[4].parse().unwrap())
            }
            "prop" => regress::verif_top::prop_table_json(f[1], f[2]),
            "findp" | "findpa" => {
                let hay: String = cps(f[5]).into_iter().map(|c| char::from_u32(c).unwrap()).collect();
                regress::verif_top::find_from_pike_json(&cps(f[3]), f[1], f[2] == "1", &hay, f[4].parse().unwrap(), f[0] == "findpa")
            }
            "finda" => {
                let hay: String = cps(f[5]).into_iter().map(|c| char::from_u32(c).unwrap()).collect();
                regress::verif_top::find_from_ascii_json(&cps(f[3]), f[1], f[2] == "1", &hay, f[4].parse().unwrap())
            }
            "findnp" => {
                let hay: String = cps(f[5]).into_iter().map(|c| char::from_u32(c).unwrap()).collect();
                regress::verif_top::find_from_json2(&cps(f[3]), f[1], f[2] == "1", &hay, f[4].parse().unwrap(), true)
            }
            "iterc" => {
                let hay: String = cps(f[5]).into_iter().map(|c| char::from_u32(c).unwrap()).collect();
                regress::verif_top::iter_consistency_json(&cps(f[3]), f[1], f[2] == "1", &hay, f[4].parse().unwrap(), f[6])
            }
            _ => "{\"ok\": false, \"err\": \"bad request\"}".to_string(),
        };
        writeln!(out, "{}", res).unwrap();
    }
}
